------------------------------- MODULE NetGen -------------------------------
(***************************************************************************)
(* Scenario generator shared by the network-level models (C01, C03, C04,   *)
(* C05, C06, C16): the state is a network under construction; AddBranch    *)
(* appends one branch of any kind between any ordered pair of nodes.       *)
(* Values depend on the list position so that a value taken from the wrong *)
(* branch shows.                                                           *)
(***************************************************************************)
EXTENDS Net, Json
CONSTANTS MaxB, MaxN, Kinds, Canon, ValTab, Refs, SymKinds
VARIABLES br, ref

vars == <<br, ref>>
Nodes == 0..(MaxN - 1)
Prime(p) == ValTab[p]
ValsPrime == <<2, 3, 5, 7, 11, 13>>
ValsSmall == <<1, 2, 3, 2, 1, 3>>

\* element of kind k at list position p
Elem(k, p) ==
  CASE k = "R"  -> EResistor(CI(Prime(p)))
    [] k = "G"  -> EConductor(CR(1, Prime(p)))
    [] k = "Z"  -> EImpedance(<<RI(Prime(p)), RI(p)>>)
    [] k = "Y"  -> EAdmittance(<<Q(1, Prime(p)), Q(-1, p + 1)>>)
    [] k = "LV" -> ELoadV(CI(Prime(p)), CI(2), CI(p - 1))
    [] k = "LI" -> ELoadI(CI(Prime(p)), CI(3), CI(1 - p))
    [] k = "V"  -> EVoltageSource(<<RI(p + 1), RI(p % 2)>>, C0)
    [] k = "VL" -> EVoltageSource(<<RI(Prime(p)), RI(-1)>>, CI(p))
    [] k = "I"  -> ECurrentSource(<<RI(p), RI((p + 1) % 2)>>, C0)
    [] k = "IL" -> ECurrentSource(CI(Prime(p)), <<Q(1, p + 1), Q(1, 2)>>)
    [] k = "LVr" -> ELoadV(CI(Prime(p)), CI(2), C0)
    [] k = "LIr" -> ELoadI(CI(Prime(p)), CI(3), C0)
    [] k = "Vr"  -> EVoltageSource(CI(p + 1), C0)
    [] k = "VLr" -> EVoltageSource(CI(Prime(p)), CI(p))
    [] k = "Ir"  -> ECurrentSource(CI(p), C0)
    [] k = "ILr" -> ECurrentSource(CI(Prime(p)), CR(1, p + 1))
    [] k = "S"  -> EShort
    [] k = "O"  -> EOpen

KindNo(k) == CHOOSE i \in 1..18 : <<"R","G","Z","Y","LV","LI","V","VL","I","IL","S","O","LVr","LIr","Vr","VLr","Ir","ILr">>[i] = k
Code(n1, n2, k) == (n1 * MaxN + n2) * 32 + KindNo(k)
LastCode == IF br = <<>> THEN 0 ELSE LET b == br[Len(br)] IN Code(b.n1, b.n2, b.e.kk)

Init == br = <<>> /\ ref \in (Nodes \cap Refs)
AddBranch == /\ Len(br) < MaxB
             /\ \E n1 \in Nodes, n2 \in Nodes, k \in Kinds :
                  /\ n1 # n2
                  /\ (k \in SymKinds => n1 < n2)        \* orientation-free kinds listed once
                  /\ (Canon => Code(n1, n2, k) >= LastCode)
                  /\ br' = Append(br, Br(Len(br) + 1, n1, n2, Elem(k, Len(br) + 1) @@ [kk |-> k]))
             /\ UNCHANGED ref
Next == AddBranch
Spec == Init /\ [][Next]_vars

Shape == Connected(br) /\ Used(br) = 0..(Cardinality(Used(br)) - 1)
InDomain == Shape /\ WellPosed(br, ref)
Sources(b) == {i \in DOMAIN b : IsActive(b[i].e)}
=============================================================================
