------------------------------ MODULE Display ------------------------------
(***************************************************************************)
(* What a rendered number must satisfy (Utils.ScientificFloat /            *)
(* ScientificComplex, SimpleCircuit/Display.py).                           *)
(* A value is the exact decimal  sgn * m * 10^e10  (m a positive integer); *)
(* a rendered finite number is  osgn * digits * 10^(oexp - ndec)  where    *)
(* oexp is the decimal exponent (written 'eN' plus the SI prefix).         *)
(* RenderVerdict names the first clause that fails, or "ok":               *)
(*   - sign                                                                *)
(*   - the exponent is a multiple of three                                 *)
(*   - the mantissa lies between 1 and 1000                                *)
(*   - the number denoted is within half a unit of the p-th significant    *)
(*     digit of the value (exact decimal ties accept both roundings)       *)
(*   - an infinity sign only from 10^M upwards, M the largest exponent of  *)
(*     the prefix table in use (16 without prefixes)                       *)
(* Integer arithmetic only; magnitudes are kept below 10^9 by comparing at *)
(* the common exponent x.                                                  *)
(***************************************************************************)
EXTENDS Integers, Sequences, TLC

RECURSIVE P10(_)
P10(k) == IF k <= 0 THEN 1 ELSE 10 * P10(k - 1)
RECURSIVE NDig(_)
NDig(m) == IF m < 10 THEN 1 ELSE 1 + NDig(m \div 10)
AbsI(x) == IF x < 0 THEN -x ELSE x
Min3(a, b, c) == LET ab == IF a < b THEN a ELSE b IN IF ab < c THEN ab ELSE c

RenderVerdict(ev) ==
  LET E == NDig(ev.m) - 1 + ev.e10 IN              \* decimal exponent of the leading digit of the value
  IF ev.inf THEN (IF E >= ev.M THEN "ok" ELSE "inf_inside_range")
  ELSE LET ue == E - ev.p + 1                      \* exponent of the unit of the p-th digit
           re == ev.oexp - ev.ndec                 \* exponent of the rendered integer 'digits'
           x  == Min3(re, ev.e10, ue)
       IN IF ev.osgn # ev.sgn THEN "sign"
          ELSE IF ev.oexp % 3 # 0 THEN "exp_not_multiple_of_3"
          ELSE IF ~(P10(ev.ndec) <= ev.digits /\ ev.digits <= 1000 * P10(ev.ndec)) THEN "mantissa_range"
          \* the leading digits of the rendered number and of the value are at most one decimal place apart (9.99 -> "10.0"), else
          \* the two differ by more than 0.9 * 10^E, which is more than half a unit of any significant digit
          ELSE IF AbsI(NDig(ev.digits) - 1 + re - E) >= 2 THEN "magnitude"
          ELSE IF AbsI(re - ue) > 3 \/ re - x > 8 \/ ev.e10 - x > 8 \/ ue - x > 9 THEN "magnitude"
          ELSE IF 2 * AbsI(ev.digits * P10(re - x) - ev.m * P10(ev.e10 - x)) <= P10(ue - x) THEN "ok"
          ELSE "inaccurate"

\* an angle (printed with some number of decimals, or omitted = printed as 0): within half a unit of the p-th significant digit of the true
\* angle, but never finer than ev.floor2 / 2 - the resolution of the angle format (half a unit of its fixed decimals, or the angle below
\* which the format writes no angle at all), given in units of 10^-6 like the true angle a6 (which is a +-2 bracket)
AngleVerdict(ev) ==
   LET printed6 == ev.digits * P10(6 - ev.ndec) * ev.osgn
       ue == NDig(AbsI(ev.a6)) - ev.p                      \* exponent (in units of 10^-6) of the p-th significant digit of the angle
       allow2 == IF ue >= 0 /\ P10(ue) > ev.floor2 THEN P10(ue) ELSE ev.floor2
   IN IF 2 * AbsI(printed6 - ev.a6) <= allow2 + 4 THEN "ok" ELSE "angle_inaccurate"
=============================================================================
