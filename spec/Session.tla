------------------------------ MODULE Session ------------------------------
(***************************************************************************)
(* The library as seen by one client process: a workspace of description   *)
(* objects (networks, circuits, documents), shared argument objects        *)
(* (an exemption list, value dictionaries, frequency / output lists), and  *)
(* the public operations of C01-C12, C16, C17 applied to them in any       *)
(* order.                                                                  *)
(*                                                                         *)
(* Every operation has the same shape, which IS property C20:              *)
(*   - no object of the workspace changes its value (ArgumentsUnchanged),  *)
(*   - the result is a function of the VALUES of the arguments only, not   *)
(*     of the history (ResultOf is applied to values; the same call on     *)
(*     equal values gives the same result - Repeatable).                   *)
(* Object values are opaque here (tokens of a catalogue the conformance    *)
(* harness realises); what matters is identity of values over time.        *)
(***************************************************************************)
EXTENDS Integers, Sequences, FiniteSets, TLC, Json
CONSTANTS MaxLen, Randomised
VARIABLES ws,      \* workspace: object handle -> value token
          hist,    \* the calls made so far
          last     \* result of the last call, as a term over argument values

vars == <<ws, hist, last>>

Nets  == {"N1", "N2"}
Circs == {"C1", "C2", "C3", "C4", "C5"}   \* siblings: C3 = the components of C1 under the same names with other capacitance / inductance values;
                                          \* C4 = C2 with other source phases only; C5 = C2 with another waveform and another internal impedance
Docs  == {"DOCN", "DOCC", "DOCX", "ZPOL"}
Shared == {"KEEP", "CV", "LV", "WL", "OUTS"}
Handles == Nets \cup Circs \cup Docs \cup Shared

\* how an optional argument object is passed: left at its (mutable) default, the shared workspace object, or a fresh equal copy
Passing == {"default", "shared", "fresh"}
KeepOps == {"remove_short_circuit_elements", "short_circuitify_voltage_sources", "open_circuitify_current_sources",
            "remove_ideal_voltage_sources", "remove_ideal_current_sources", "passive_network"}
NetOps  == {"construct_network", "solve", "solve_with_other_reference", "port_quantities", "switch_ground_node", "remove_element", "remove_open_circuit_elements"}
CircOps == {"construct_circuit", "transform_circuit", "frequency_components", "dc_solution", "complex_solution", "time_domain_solution",
            "frequency_domain_solution", "transient_solution", "circuit_impedance"}
Calls ==
       {[op |-> o, on |-> n, arg |-> "KEEP", how |-> p] : o \in KeepOps, n \in Nets, p \in Passing}
  \cup {[op |-> o, on |-> n, arg |-> "-", how |-> "-"] : o \in NetOps, n \in Nets}
  \cup {[op |-> o, on |-> c, arg |-> "-", how |-> "-"] : o \in CircOps, c \in Circs}
  \cup {[op |-> "transform", on |-> c, arg |-> "WL", how |-> p] : c \in Circs, p \in Passing}
  \cup {[op |-> "state_space_model", on |-> c, arg |-> "OUTS", how |-> p] : c \in Circs, p \in Passing}
  \cup {[op |-> "nodal_state_space_model", on |-> "C1", arg |-> "CV", how |-> p] : p \in Passing}
  \cup {[op |-> o, on |-> "DOCN", arg |-> "-", how |-> "-"] : o \in {"load_network"}}
  \cup {[op |-> o, on |-> "DOCC", arg |-> "-", how |-> "-"] : o \in {"undictify_circuit", "generate_component"}}
  \cup {[op |-> o, on |-> "DOCX", arg |-> "-", how |-> "-"] : o \in {"serialize_json", "serialize_yaml", "roundtrip"}}
  \cup {[op |-> o, on |-> "ZPOL", arg |-> "-", how |-> "-"] : o \in {"to_complex", "to_complex_degree"}}
  \cup {[op |-> "fourier_series", on |-> "-", arg |-> "-", how |-> "-"]}

\* the value term of a call: the operation applied to the values of its argument objects
ValueOf(h) == IF h = "-" THEN "-" ELSE ws[h]
ResultOf(c) == <<c.op, ValueOf(c.on), IF c.how = "default" THEN "default-value" ELSE ValueOf(c.arg)>>

Init == ws = [h \in Handles |-> h] /\ hist = <<>> /\ last = <<>>
Call(c) == /\ Len(hist) < MaxLen
           /\ hist' = Append(hist, c)
           /\ last' = ResultOf(c)
           /\ UNCHANGED ws                     \* no operation modifies any object of the workspace
\* Randomised: the simulator draws ONE call (TLC!RandomElement): every emitted history is an independent random path
Next == IF Randomised THEN Call(RandomElement(Calls)) ELSE \E c \in Calls : Call(c)
Spec == Init /\ [][Next]_vars

ArgumentsUnchanged == [][ws' = ws]_vars
\* the same call always denotes the same result term (pure function of values)
Repeatable == \A i, j \in DOMAIN hist : hist[i] = hist[j] => ResultOf(hist[i]) = ResultOf(hist[j])
Emit == Len(hist) = MaxLen => PrintT(<<"CASE", ToJson([hist |-> hist])>>)
=============================================================================
