------------------------------ MODULE Circuit ------------------------------
(***************************************************************************)
(* Component circuits (Circuit/components.py, circuit.py, transformers.py).*)
(*                                                                         *)
(* A component is [kind, id, n1, n2, v] with v a record of its parameters  *)
(* (rationals; a phase is carried as the unit Gaussian u = exp(j*phi), a   *)
(* rational point of the unit circle, so that A*exp(j*phi) is exact).      *)
(* Ground is [kind |-> "ground", id, n1] .                                 *)
(*                                                                         *)
(* TransformAt(c, w, res) is the branch element a component contributes at *)
(* angular frequency w - one branch per non-ground component, same id,     *)
(* same terminal order.  A source value may carry a power of 1/pi (Fourier *)
(* harmonics): element field pik, value = src * pi^(-pik).                 *)
(***************************************************************************)
EXTENDS Net, Fourier

\* ---------------------------------------------------------------- components
Comp(kind, id, n1, n2, v) == [kind |-> kind, id |-> id, n1 |-> n1, n2 |-> n2, v |-> v]
Ground(id, n) == [kind |-> "ground", id |-> id, n1 |-> n, n2 |-> n, v |-> [x |-> 0]]

SourceKinds == {"dc_voltage_source", "ac_voltage_source", "complex_voltage_source", "periodic_voltage_source",
                "dc_current_source", "ac_current_source", "complex_current_source", "periodic_current_source"}
IsGround(c) == c.kind = "ground"
NonGround(cs) == {i \in DOMAIN cs : ~IsGround(cs[i])}
Grounds(cs) == {i \in DOMAIN cs : IsGround(cs[i])}
\* Circuit(...) validity: at most one ground, ids pairwise distinct
ValidCircuit(cs) == Cardinality(Grounds(cs)) <= 1 /\ Cardinality({cs[i].id : i \in DOMAIN cs}) = Len(cs)
\* reference node: the ground component's node, else the first terminal of the first component
RefOf(cs) == IF Grounds(cs) # {} THEN cs[CHOOSE i \in Grounds(cs) : TRUE].n1 ELSE cs[1].n1

\* component constructors reject negative resistance, conductance, capacitance, inductance,
\* frequency, rated power / voltage, and unknown waveform types (value exactly 0 is valid)
NonNeg(v, f) == f \notin DOMAIN v \/ RSign(v[f]) >= 0
ValidComp(c) ==
  LET v == c.v IN
  CASE c.kind \in {"resistor", "conductance", "capacitor", "inductance"} -> NonNeg(v, "R") /\ NonNeg(v, "G") /\ NonNeg(v, "C") /\ NonNeg(v, "L")
    [] c.kind \in {"lamp", "resistive_load"} -> NonNeg(v, "P") /\ NonNeg(v, "V_ref")
    [] c.kind \in {"dc_voltage_source", "dc_current_source"} -> NonNeg(v, "R") /\ NonNeg(v, "G")
    [] c.kind \in {"ac_voltage_source", "ac_current_source"} -> NonNeg(v, "R") /\ NonNeg(v, "G") /\ NonNeg(v, "w")
    [] c.kind \in {"periodic_voltage_source", "periodic_current_source"} -> NonNeg(v, "R") /\ NonNeg(v, "G") /\ NonNeg(v, "w") /\ v.wave \in Waves
    [] OTHER -> TRUE

\* ------------------------------------------------------- element at frequency w
WithPi(e, k) == e @@ [pik |-> k]
AtFrequency(w, ws, res) == RLe(RAbs(RSub(w, ws)), res)
\* harmonic index of a periodic source at w:  n = round(w/w0), accepted iff |w/w0 - n| <= res/w0
HarmonicIndex(w, w0) == RRound(RDiv(w, w0))
OnHarmonic(w, w0, res) == RLe(RAbs(RSub(RDiv(w, w0), RI(HarmonicIndex(w, w0)))), RDiv(res, w0))

ElementAt(c, w, res) ==
  LET v == c.v IN
  CASE c.kind = "resistor"       -> WithPi(EResistor(CQ(v.R)), 0)
    [] c.kind = "conductance"    -> WithPi(EConductor(CQ(v.G)), 0)
    [] c.kind = "impedance"      -> WithPi(EImpedance(<<v.R, v.X>>), 0)
    [] c.kind = "admittance"     -> WithPi(EAdmittance(<<v.G, v.B>>), 0)
    [] c.kind = "capacitor"      -> WithPi(EAdmittance(<<R0, RMul(w, v.C)>>), 0)       \* Y = j w C
    [] c.kind = "inductance"     -> WithPi(EImpedance(<<R0, RMul(w, v.L)>>), 0)        \* Z = j w L
    [] c.kind \in {"lamp", "resistive_load"} -> WithPi(ELoadV(CQ(v.P), CQ(v.V_ref), C0), 0)   \* Y = P / V_ref^2
    [] c.kind = "short_circuit"  -> WithPi(EShort, 0)
    [] c.kind = "dc_voltage_source" ->
          IF AtFrequency(w, R0, res) THEN WithPi(EVoltageSource(CQ(v.V), CQ(v.R)), 0) ELSE WithPi(EShort, 0)
    [] c.kind = "ac_voltage_source" ->
          IF AtFrequency(w, v.w, res) THEN WithPi(EVoltageSource(CScale(v.V, v.u), CQ(v.R)), 0) ELSE WithPi(EShort, 0)
    [] c.kind = "complex_voltage_source" -> WithPi(EVoltageSource(v.V, v.Z), 0)           \* at every frequency
    [] c.kind = "periodic_voltage_source" ->
          IF OnHarmonic(w, v.w, res)
          THEN LET h == HarmPhasor(v.wave, v.V, R0, HarmonicIndex(w, v.w), v.u) IN WithPi(EVoltageSource(h[2], CQ(v.R)), h[1])
          ELSE WithPi(EShort, 0)
    [] c.kind = "dc_current_source" ->
          IF AtFrequency(w, R0, res) THEN WithPi(ECurrentSource(CQ(v.I), CQ(v.G)), 0) ELSE WithPi(EOpen, 0)
    [] c.kind = "ac_current_source" ->
          IF AtFrequency(w, v.w, res) THEN WithPi(ECurrentSource(CScale(v.I, v.u), CQ(v.G)), 0) ELSE WithPi(EOpen, 0)
    [] c.kind = "complex_current_source" -> WithPi(ECurrentSource(v.I, v.Y), 0)
    [] c.kind = "periodic_current_source" ->
          IF OnHarmonic(w, v.w, res)
          THEN LET h == HarmPhasor(v.wave, v.I, R0, HarmonicIndex(w, v.w), v.u) IN WithPi(ECurrentSource(h[2], CQ(v.G)), h[1])
          ELSE WithPi(EOpen, 0)

\* the network of a circuit at w: one branch per non-ground component, in listing order
NetAt(cs, w, res) == LET idx == NonGround(cs) IN
   [k \in 1..Cardinality(idx) |-> LET i == NthOf(idx, k) IN Br(cs[i].id, cs[i].n1, cs[i].n2, ElementAt(cs[i], w, res))]

\* ----------------------------------------------------------- frequency list
\* own frequency of each source; for a periodic source all k*w0 <= wmax, k >= 0
SrcFreqs(c, wmax) ==
   IF c.kind \in {"dc_voltage_source", "dc_current_source"} THEN {R0}
   ELSE IF c.kind \in {"ac_voltage_source", "ac_current_source"} THEN {c.v.w}
   ELSE IF c.kind \in {"periodic_voltage_source", "periodic_current_source"}
        THEN {RMul(RI(k), c.v.w) : k \in 0..RFloor(RDiv(wmax, c.v.w))}
   ELSE {}
AllFreqs(cs, wmax) == UNION {SrcFreqs(cs[i], wmax) : i \in DOMAIN cs}
\* sorted sequence of a finite set of rationals
RECURSIVE SortR(_)
SortR(S) == IF S = {} THEN <<>> ELSE LET m == CHOOSE x \in S : \A y \in S : RLe(x, y) IN <<m>> \o SortR(S \ {m})

\* frequencies that coincide within the resolution are analysed once (the smaller one stands for the group)
RECURSIVE MergeSorted(_,_,_)
MergeSorted(sq, res, last) == IF sq = <<>> THEN <<>>
                              ELSE IF last # <<>> /\ RLe(RSub(Head(sq), last[1]), res) THEN MergeSorted(Tail(sq), res, last)
                              ELSE <<Head(sq)>> \o MergeSorted(Tail(sq), res, <<Head(sq)>>)
FreqList(cs, wmax, res) == MergeSorted(SortR(AllFreqs(cs, wmax)), res, <<>>)

\* ----------------------------------------------------------- solving with pi-monomials
\* the network in which only the sources carrying pi^(-k) are active
Mono(br, k) == [i \in DOMAIN br |-> IF br[i].e.pik = k \/ CIsZero(br[i].e.src) THEN br[i]
                                    ELSE SetElem(br[i], [br[i].e EXCEPT !.src = C0])]
PiPowers(br) == {br[i].e.pik : i \in {j \in DOMAIN br : ~CIsZero(br[j].e.src)}}
=============================================================================
