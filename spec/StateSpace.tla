----------------------------- MODULE StateSpace -----------------------------
(***************************************************************************)
(* The state-space model of an RLC circuit with ideal sources, derived by  *)
(* SUBSTITUTION - independently of the library's inverse-matrix sandwich:  *)
(* for given capacitor voltages x_C, inductor currents x_L and source      *)
(* values u, replace every capacitor by an ideal voltage source x_C, every *)
(* inductor by an ideal current source x_L, solve the resistive network    *)
(* (module Net), and read                                                  *)
(*     dx_C/dt = i_C / C,      dx_L/dt = v_L / L,                          *)
(* and any output (potential, element voltage, element current) from the   *)
(* same solution.  Everything is linear in (x, u): column k of A / C is    *)
(* obtained with the k-th unit state, column q of B / D with the q-th unit *)
(* input.                                                                  *)
(* States: capacitor voltages (first minus second terminal) then inductor  *)
(* currents (first to second terminal), each in listing order.  Inputs:    *)
(* the ideal sources in listing order (the harness matches columns through *)
(* the source order the library publishes).                                *)
(***************************************************************************)
EXTENDS Circuit

Caps(cs) == {i \in DOMAIN cs : cs[i].kind = "capacitor"}
Inds(cs) == {i \in DOMAIN cs : cs[i].kind = "inductance"}
Srcs(cs) == {i \in DOMAIN cs : cs[i].kind \in {"dc_voltage_source", "dc_current_source"}}
StatesOf(cs) == Caps(cs) \cup Inds(cs)
NS(cs) == Cardinality(StatesOf(cs))
NU(cs) == Cardinality(Srcs(cs))
StateAt(cs, r) == LET nc == Cardinality(Caps(cs)) IN IF r <= nc THEN NthOf(Caps(cs), r) ELSE NthOf(Inds(cs), r - nc)
SrcAt(cs, q) == NthOf(Srcs(cs), q)
\* the circuits this module applies to: R-like elements, C, L, ideal DC-type sources (values are inputs)
InSSDomain(cs) == \A i \in DOMAIN cs :
    \/ cs[i].kind \in {"resistor", "conductance", "lamp", "resistive_load", "capacitor", "inductance"}
    \/ (cs[i].kind = "dc_voltage_source" /\ RIsZero(cs[i].v.R))
    \/ (cs[i].kind = "dc_current_source" /\ RIsZero(cs[i].v.G))

Unit(S, j) == [i \in S |-> IF i = j THEN C1 ELSE C0]
Zero(S) == [i \in S |-> C0]

\* substituted resistive network for state values x (function on StatesOf) and inputs u (function on Srcs)
SubNet(cs, x, u) == [i \in DOMAIN cs |->
   LET c == cs[i] IN
   Br(c.id, c.n1, c.n2,
      IF c.kind = "capacitor" THEN EVoltageSource(x[i], C0)
      ELSE IF c.kind = "inductance" THEN ECurrentSource(x[i], C0)
      ELSE IF c.kind = "dc_voltage_source" THEN EVoltageSource(u[i], C0)
      ELSE IF c.kind = "dc_current_source" THEN ECurrentSource(u[i], C0)
      ELSE ElementAt(c, R0, R0))]
\* phasor network at angular frequency w for source phasors u
PhNet(cs, w, u) == [i \in DOMAIN cs |->
   LET c == cs[i] IN
   Br(c.id, c.n1, c.n2,
      IF c.kind = "dc_voltage_source" THEN EVoltageSource(u[i], C0)
      ELSE IF c.kind = "dc_current_source" THEN ECurrentSource(u[i], C0)
      ELSE ElementAt(c, w, R0))]

\* derivative of the state carried by component k, from a solved substituted network
Deriv(cs, nt, ref, s, k) == IF cs[k].kind = "capacitor" THEN CScale(RInv(cs[k].v.C), Flow(nt, ref, s, k))
                            ELSE CScale(RInv(cs[k].v.L), U(nt, ref, s, k))
\* outputs: <<"phi", node>>, <<"u", component index>>, <<"i", component index>>
OutVal(nt, ref, s, o) == IF o[1] = "phi" THEN Phi(nt, ref, s, o[2]) ELSE IF o[1] = "u" THEN U(nt, ref, s, o[2]) ELSE Flow(nt, ref, s, o[2])
Outputs(cs) == {<<"phi", n>> : n \in Used(SubNet(cs, Zero(StatesOf(cs)), Zero(Srcs(cs))))} \cup {<<"u", i>> : i \in DOMAIN cs} \cup {<<"i", i>> : i \in DOMAIN cs}

\* well-posedness of the substituted network (no capacitor / voltage-source loop, no inductor / current-source cut set)
SubSolve(cs, ref, x, u) == SolveOpt(SubNet(cs, x, u), ref)
SubOK(cs, ref) == SubSolve(cs, ref, Zero(StatesOf(cs)), Zero(Srcs(cs))) # <<>>

Amat(cs, ref) == [r \in 1..NS(cs) |-> [k \in 1..NS(cs) |->
     LET x == Unit(StatesOf(cs), StateAt(cs, k)) u == Zero(Srcs(cs)) nt == SubNet(cs, x, u) IN Deriv(cs, nt, ref, SolveOpt(nt, ref), StateAt(cs, r))]]
Bmat(cs, ref) == [r \in 1..NS(cs) |-> [q \in 1..NU(cs) |->
     LET x == Zero(StatesOf(cs)) u == Unit(Srcs(cs), SrcAt(cs, q)) nt == SubNet(cs, x, u) IN Deriv(cs, nt, ref, SolveOpt(nt, ref), StateAt(cs, r))]]
Crow(cs, ref, o) == [k \in 1..NS(cs) |->
     LET nt == SubNet(cs, Unit(StatesOf(cs), StateAt(cs, k)), Zero(Srcs(cs))) IN OutVal(nt, ref, SolveOpt(nt, ref), o)]
Drow(cs, ref, o) == [q \in 1..NU(cs) |->
     LET nt == SubNet(cs, Zero(StatesOf(cs)), Unit(Srcs(cs), SrcAt(cs, q))) IN OutVal(nt, ref, SolveOpt(nt, ref), o)]

\* non-degenerate: substituted network well posed, at least one state and one source, no pole at s = 0
NonDegenerate(cs, ref) == NS(cs) >= 1 /\ NU(cs) >= 1 /\ SubOK(cs, ref) /\ ~CIsZero(Det(Amat(cs, ref), NS(cs)))

\* (jw I - A) and the state phasors for a unit phasor at input q
JwIA(A, n, w) == [r \in 1..n |-> [k \in 1..n |-> IF r = k THEN CSub(<<R0, w>>, A[r][k]) ELSE CNeg(A[r][k])]]
StateFromSS(A, B, n, w, q) == Cramer(JwIA(A, n, w), n, [r \in 1..n |-> B[r][q]])
\* transfer function value of output o for input q at w
TF(cs, ref, A, B, w, q, o) == LET n == NS(cs) X == StateFromSS(A, B, n, w, q) c == Crow(cs, ref, o) d == Drow(cs, ref, o) IN
     CAdd(CSumF([k \in 1..n |-> CMul(c[k], X[k])], 1, n), d[q])
\* the same quantity from single-frequency phasor analysis
Phasor(cs, ref, w, q, o) == LET nt == PhNet(cs, w, Unit(Srcs(cs), SrcAt(cs, q))) IN OutVal(nt, ref, SolveOpt(nt, ref), o)
PhasorOK(cs, ref, w) == SolveOpt(PhNet(cs, w, Zero(Srcs(cs))), ref) # <<>>

\* ---- passivity (C11): M = W A + A^T W with W = diag(C..., L...) is negative semidefinite
Wd(cs, r) == LET c == cs[StateAt(cs, r)] IN IF c.kind = "capacitor" THEN c.v.C ELSE c.v.L
Mmat(cs, A) == [r \in 1..NS(cs) |-> [k \in 1..NS(cs) |-> RAdd(RMul(Wd(cs, r), A[r][k][1]), RMul(Wd(cs, k), A[k][r][1]))]]
\* negative semidefinite <=> every principal minor of -M is >= 0 (n <= 3 here)
SubMat(M, S) == LET n == Cardinality(S) IN [r \in 1..n |-> [k \in 1..n |-> CQ(RNeg(M[NthOf(S, r)][NthOf(S, k)]))]]
NegSemiDef(M, n) == \A S \in (SUBSET (1..n)) \ {{}} : LET d == Det(SubMat(M, S), Cardinality(S)) IN CIsReal(d) /\ RSign(CRe(d)) >= 0
=============================================================================
