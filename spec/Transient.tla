----------------------------- MODULE Transient -----------------------------
(***************************************************************************)
(* Exact response of x' = A x + B u, x(0) = 0, to piecewise-linear inputs  *)
(* with break points on a uniform grid of step h (first-order hold), for   *)
(* state matrices with DISTINCT GAUSSIAN-RATIONAL poles (order 1 always;   *)
(* order 2 when the discriminant of the characteristic polynomial is plus  *)
(* or minus a rational square, decided exactly).                           *)
(*   A = SUM_i lam_i P_i  (spectral projectors),  p_i = exp(lam_i h),      *)
(*   x_i[k+1] = p_i x_i[k] + g0_i P_i B u[k] + g1_i P_i B (u[k+1] - u[k]), *)
(*   g0 = (p - 1)/lam,   g1 = (p - 1) eta / lam^2 - 1/lam,   eta = 1/h.    *)
(* TLA+ cannot evaluate exp; the response is carried as a polynomial in    *)
(* p_i whose coefficients are a + b*eta with Gaussian-rational a, b:       *)
(* a polynomial is [d \in 0..K |-> <<a_d, b_d>>].  The harness substitutes *)
(* p_i = exp(lam_i h), eta = 1/h and sums the modes.                       *)
(***************************************************************************)
EXTENDS StateSpace
CONSTANT K          \* number of time steps

RECURSIVE BS(_,_,_)
BS(x, lo, hi) == IF lo >= hi THEN lo ELSE LET mid == (lo + hi + 1) \div 2 IN IF mid * mid <= x THEN BS(x, mid, hi) ELSE BS(x, lo, mid - 1)
ISqrt(x) == BS(x, 0, IF x < 46340 THEN x ELSE 46340)
IsSq(x) == x >= 0 /\ ISqrt(x) * ISqrt(x) = x
RIsSq(q) == IsSq(q[1]) /\ IsSq(q[2])
RSqrt(q) == <<ISqrt(q[1]), ISqrt(q[2])>>
Half == Q(1,2)

\* poles of a real A (n = 1 or 2) as a sequence of Gaussians; <<>> if they are not distinct Gaussian rationals
Poles(A, n) ==
   IF n = 1 THEN << A[1][1] >>
   ELSE IF n = 2 THEN
        LET tr == RAdd(A[1][1][1], A[2][2][1])
            dt == RSub(RMul(A[1][1][1], A[2][2][1]), RMul(A[1][2][1], A[2][1][1]))
            disc == RSub(RMul(tr, tr), RMul(RI(4), dt))
        IN IF disc[1] > 0 /\ RIsSq(disc) THEN LET s == RSqrt(disc) IN << <<RMul(Half, RAdd(tr, s)), R0>>, <<RMul(Half, RSub(tr, s)), R0>> >>
           ELSE IF disc[1] < 0 /\ RIsSq(RNeg(disc)) THEN LET s == RSqrt(RNeg(disc)) IN << <<RMul(Half, tr), RMul(Half, s)>>, <<RMul(Half, tr), RNeg(RMul(Half, s))>> >>
           ELSE <<>>
   ELSE <<>>
\* spectral projector of pole i
Proj(A, n, lam, i) ==
   IF n = 1 THEN [r \in 1..1 |-> [q \in 1..1 |-> C1]]
   ELSE LET o == lam[3 - i] dn == CSub(lam[i], o) IN
        [r \in 1..2 |-> [q \in 1..2 |-> CDiv(IF r = q THEN CSub(A[r][q], o) ELSE A[r][q], dn)]]
\* the projectors are a resolution of the identity and reproduce A (checked by the models)
ProjectorsOK(A, n, lam) ==
   /\ \A r, q \in 1..n : CSumF([i \in 1..Len(lam) |-> Proj(A, n, lam, i)[r][q]], 1, Len(lam)) = (IF r = q THEN C1 ELSE C0)
   /\ \A r, q \in 1..n : CSumF([i \in 1..Len(lam) |-> CMul(lam[i], Proj(A, n, lam, i)[r][q])], 1, Len(lam)) = A[r][q]

PZero == [d \in 0..K |-> <<C0, C0>>]
PShift(P) == [d \in 0..K |-> IF d = 0 THEN <<C0, C0>> ELSE P[d-1]]
PAdd(P, Qp) == [d \in 0..K |-> <<CAdd(P[d][1], Qp[d][1]), CAdd(P[d][2], Qp[d][2])>>]
\* w0 * g0 + w1 * g1 as a polynomial in p
Incr(lam, w0, w1) == LET il == CInv(lam) il2 == CMul(il, il) IN
   [d \in 0..K |-> IF d = 0 THEN <<CNeg(CAdd(CMul(w0, il), CMul(w1, il))), CNeg(CMul(w1, il2))>>
                   ELSE IF d = 1 THEN <<CMul(w0, il), CMul(w1, il2)>> ELSE <<C0, C0>>]
\* input waveforms on the grid, u[k][q]: source 1 - a step realised as a one-sample ramp; source 2 - a triangle;
\* further sources - a ramp that is held after two samples
UWave(k, q) == IF q = 1 THEN (IF k = 0 THEN C0 ELSE C1)
               ELSE IF q = 2 THEN (IF k = 1 THEN CR(1,2) ELSE IF k = 2 THEN C1 ELSE IF k = 3 THEN CR(1,2) ELSE C0)
               ELSE (IF k = 0 THEN C0 ELSE IF k = 1 THEN CR(1,2) ELSE C1)
RECURSIVE ModeRun(_,_,_,_,_,_,_)
\* sequence (k = 0..K) of state vectors of one mode
ModeRun(n, m, lam, i, PB, k, prev) ==
   IF k = K THEN << prev >>
   ELSE LET nxt == [r \in 1..n |->
                      PAdd(PShift(prev[r]),
                           Incr(lam[i],
                                CSumF([q \in 1..m |-> CMul(PB[r][q], UWave(k, q))], 1, m),
                                CSumF([q \in 1..m |-> CMul(PB[r][q], CSub(UWave(k + 1, q), UWave(k, q)))], 1, m)))]
        IN << prev >> \o ModeRun(n, m, lam, i, PB, k + 1, nxt)
PBmat(A, B, n, m, lam, i) == LET P == Proj(A, n, lam, i) IN
   [r \in 1..n |-> [q \in 1..m |-> CSumF([j \in 1..n |-> CMul(P[r][j], B[j][q])], 1, n)]]
\* Run[i][k+1][r] : polynomial of state r, mode i, sample k
Run(A, B, n, m, lam) == [i \in 1..Len(lam) |-> ModeRun(n, m, lam, i, PBmat(A, B, n, m, lam, i), 0, [r \in 1..n |-> PZero])]
=============================================================================
