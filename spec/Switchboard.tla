---------------------------- MODULE Switchboard ----------------------------
(***************************************************************************)
(* Growth of the specification beyond the listed properties: a schematic   *)
(* with switches and lamps as a STATE MACHINE (SimpleCircuit.Elements.     *)
(* Switch.open / close / toggle, LampLighter.light_lamps).                 *)
(*                                                                         *)
(* The drawing is fixed: a DC source feeds lamp L1 through switch S1 and,  *)
(* behind S1, lamp L2 through switch S2 (points of the 3 x 3 grid of       *)
(* module Drawing):                                                        *)
(*                                                                         *)
(*        3 --S1-- 4 --S2-- 5                                              *)
(*        |        |        |                                              *)
(*        V        L1       L2                                             *)
(*        |        |        |                                              *)
(*        0 ------ 1 ------ 2      ground at 0                             *)
(*                                                                         *)
(* State: which switches are closed.  Actions: open, close, toggle of one  *)
(* switch.  After every action the netlist of the drawing (Drawing!Netlist *)
(* with the switch symbols of the current state) has an exact DC solution, *)
(* and every lamp a brightness class from its true power relative to its   *)
(* rated power: off (<= 5 %), lit, burnt (>= 120 %).                       *)
(*                                                                         *)
(* Theorems TLC checks on the model (Check):                               *)
(*   - toggle is an involution on the state and equals close on an open,   *)
(*     open on a closed switch (by construction of the actions; stated so  *)
(*     that the replay has a named expectation);                           *)
(*   - a lamp behind an open switch carries no current (power 0, off);     *)
(*   - with S1 closed L1 sees the full source voltage, independent of S2.  *)
(***************************************************************************)
EXTENDS Drawing, Json
CONSTANTS MaxSteps, SrcAt, Randomised
VARIABLES closed, start, hist
vars == <<closed, start, hist>>

Switches == {1, 2}
\* the drawing program for a switch state; the source is item SrcAt (its value is SrcAt + 1 volt, see Drawing!SymComp), wires fill the
\* positions before it so that the other items keep their values
SwKind(s, c) == IF c[s] THEN "sw_closed" ELSE "sw_open"
Body(c) == << Item(SwKind(1, c), 3, 4, FALSE, FALSE), Item("lamp", 4, 1, FALSE, FALSE), Item(SwKind(2, c), 4, 5, FALSE, FALSE),
              Item("lamp", 5, 2, FALSE, FALSE), Item("wire", 0, 1, FALSE, FALSE), Item("wire", 1, 2, FALSE, FALSE), Item("gnd", 0, 0, FALSE, FALSE) >>
Lead == [i \in 1..(SrcAt - 1) |-> Item("wire", 0, 1, FALSE, FALSE)]
ProgOf(c) == Lead \o << Item("V", 0, 3, TRUE, FALSE) >> \o Body(c)      \* source reversed: its + terminal is point 3
IdxS(s) == SrcAt + (IF s = 1 THEN 1 ELSE 3)          \* item index (= component id) of switch s
IdxL(l) == SrcAt + (IF l = 1 THEN 2 ELSE 4)          \* item index of lamp l

Acts == {"open", "close", "toggle"}
After(c, a, s) == [c EXCEPT ![s] = IF a = "open" THEN FALSE ELSE IF a = "close" THEN TRUE ELSE ~c[s]]

\* exact solution and lamp classes of a switch state
Sol(c) == LET net == DrawNet(ProgOf(c), R0, Q(1, 1000)) ref == RefClass(ProgOf(c)) IN [net |-> net, ref |-> ref, s |-> SolveOpt(net, ref)]
PosOf(net, id) == CHOOSE j \in DOMAIN net : net[j].id = id
LampPower(c, l) == LET x == Sol(c) IN CRe(Pow(x.net, x.ref, x.s, PosOf(x.net, IdxL(l))))
Rated(l) == RI(Pw(IdxL(l)))
Class(p, rated) == IF RLe(p, RMul(Q(1, 20), rated)) THEN "off" ELSE IF RLe(RMul(Q(6, 5), rated), p) THEN "burnt" ELSE "lit"
Observe(c) == [closed |-> c, p |-> [l \in {1, 2} |-> LampPower(c, l)], cls |-> [l \in {1, 2} |-> Class(LampPower(c, l), Rated(l))]]

Init == closed \in [Switches -> BOOLEAN] /\ start = closed /\ hist = <<>>
Step(a, s) == /\ Len(hist) < MaxSteps
              /\ closed' = After(closed, a, s)
              /\ UNCHANGED start
              /\ hist' = Append(hist, [a |-> a, s |-> s, obs |-> Observe(After(closed, a, s))])
Cand == {<<a, s>> : a \in Acts, s \in Switches}
Next == IF Randomised THEN LET x == RandomElement(Cand) IN Step(x[1], x[2]) ELSE \E x \in Cand : Step(x[1], x[2])
Spec == Init /\ [][Next]_vars

Check ==
  /\ Assert(Sol(closed).s # <<>>, "Switchboard: a switch state without solution")
  /\ Assert(\A s \in Switches : After(After(closed, "toggle", s), "toggle", s) = closed, "Switchboard: toggle is not an involution")
  /\ Assert(\A s \in Switches : After(closed, "toggle", s) = After(closed, IF closed[s] THEN "open" ELSE "close", s), "Switchboard: toggle")
  /\ Assert(~closed[1] => (RIsZero(LampPower(closed, 1)) /\ RIsZero(LampPower(closed, 2))), "Switchboard: lamp behind an open switch is powered")
  /\ Assert((closed[1] /\ ~closed[2]) => RIsZero(LampPower(closed, 2)), "Switchboard: L2 behind open S2 is powered")
  /\ Assert(closed[1] => LampPower(closed, 1) = LampPower([closed EXCEPT ![2] = ~@], 1), "Switchboard: L1 depends on S2")
  /\ (Len(hist) = MaxSteps =>
        PrintT(<<"CASE", ToJson([src_at |-> SrcAt, volts |-> SrcAt + 1, prog |-> ProgOf(start), netlist |-> Netlist(ProgOf(start)), start |-> start, start_obs |-> Observe(start), sw |-> [s \in Switches |-> IdxS(s)], lamp |-> [l \in {1, 2} |-> IdxL(l)],
                                 rated |-> [l \in {1, 2} |-> Rated(l)], hist |-> hist])>>))
=============================================================================
