-------------------------------- MODULE Docs --------------------------------
(***************************************************************************)
(* Description documents and what loading them means.                      *)
(*  - network descriptions (Network/loaders.py): a list of entries          *)
(*    [type, id, n1, n2, val] ; val maps field names to numbers             *)
(*  - circuit descriptions (Circuit/dump_load.py): entries [type, id,       *)
(*    nodes, value]                                                         *)
(*  - a complex number is written Cartesian {real, imag} or polar           *)
(*    {abs, phase} (radians) / {abs, phase_deg}; all denote abs * u with u  *)
(*    the unit Gaussian of the angle                                        *)
(* Loading is a function of the document's value: it leaves the document    *)
(* unchanged (module Session states this for every operation).              *)
(***************************************************************************)
EXTENDS Circuit

\* a written complex number: notation nt \in {"ri", "pr", "pd"}, magnitude (rational >= 0) and unit Gaussian
Written(nt, mag, u) == [nt |-> nt, mag |-> mag, u |-> u]
Denote(wr) == CScale(wr.mag, wr.u)
WrittenReal(x) == [nt |-> "real", mag |-> x, u |-> C1]          \* a plain real field (may be negative)
Val(wr) == IF wr.nt = "real" THEN CQ(wr.mag) ELSE Denote(wr)

NetKinds == {"resistor", "conductor", "impedance", "admittance", "linear_current_source", "current_source", "real_current_source",
             "linear_voltage_source", "voltage_source", "real_voltage_source", "short_circuit", "open_circuit"}
\* fields each kind of the network loader table reads (optional ones in the second set)
NetFields(k) ==
  CASE k = "resistor" -> <<"R">>  [] k = "conductor" -> <<"G">>  [] k = "impedance" -> <<"Z">>  [] k = "admittance" -> <<"Y">>
    [] k = "linear_current_source" -> <<"I", "Y">>  [] k = "current_source" -> <<"I">>  [] k = "real_current_source" -> <<"I", "Y">>
    [] k = "linear_voltage_source" -> <<"V", "Z">>  [] k = "voltage_source" -> <<"V">>  [] k = "real_voltage_source" -> <<"V", "Z">>
    [] OTHER -> <<>>
ComplexField(k, f) == (k \in {"impedance", "admittance", "linear_current_source", "current_source", "linear_voltage_source", "voltage_source"})
Has(val, f) == f \in DOMAIN val
Get(val, f) == IF Has(val, f) THEN Val(val[f]) ELSE C0
\* the element an entry denotes
LoadNetElement(k, val) ==
  CASE k = "resistor"  -> EResistor(Get(val, "R"))
    [] k = "conductor" -> EConductor(Get(val, "G"))
    [] k = "impedance" -> EImpedance(Get(val, "Z"))
    [] k = "admittance" -> EAdmittance(Get(val, "Y"))
    [] k \in {"linear_current_source", "current_source", "real_current_source"} -> ECurrentSource(Get(val, "I"), Get(val, "Y"))
    [] k \in {"linear_voltage_source", "voltage_source", "real_voltage_source"} -> EVoltageSource(Get(val, "V"), Get(val, "Z"))
    [] k = "short_circuit" -> EShort
    [] k = "open_circuit" -> EOpen
LoadNetEntry(en) == Br(en.id, en.n1, en.n2, LoadNetElement(en.type, en.val))
LoadNetwork(doc) == [i \in DOMAIN doc |-> LoadNetEntry(doc[i])]

\* ---- circuit loader table (generate_component): entry -> component (value dictionary as the constructor stores it)
CircKinds == {"resistor", "conductance", "impedance", "admittance", "dc_voltage_source", "ac_voltage_source", "complex_voltage_source",
              "dc_current_source", "ac_current_source", "complex_current_source"}
=============================================================================
