------------------------------ MODULE Drawing ------------------------------
(***************************************************************************)
(* Schematic drawings (SimpleCircuit) and the netlist they depict.         *)
(* A drawing program is a sequence of placements on a 3 x 3 grid of points *)
(* 0..8 (point = 3*y + x): two-terminal symbols and wires join two         *)
(* adjacent points (start a, end b); a ground symbol and node labels sit   *)
(* on one point.                                                           *)
(* Electrical nodes are the classes of points joined by chains of wires    *)
(* (end points only).  Each two-terminal symbol becomes one component, in  *)
(* insertion order, between the classes of its start and end point; a      *)
(* source marked 'rev' runs from end to start; the ground symbol makes its *)
(* class the reference; a label names its class.                           *)
(***************************************************************************)
EXTENDS Circuit

Pts == 0..8
X(p) == p % 3
Y(p) == p \div 3
Adj(a, b) == (X(a) = X(b) /\ (Y(a) - Y(b) = 1 \/ Y(b) - Y(a) = 1)) \/ (Y(a) = Y(b) /\ (X(a) - X(b) = 1 \/ X(b) - X(a) = 1))

PassiveSyms == {"R", "G", "Z", "C", "L", "lamp", "sw_open", "sw_closed"}
SourceSyms  == {"V", "I", "ACV", "ACI", "CV", "CI", "RectV", "TriV", "SawV", "RectI", "TriI", "SawI", "lline"}
TwoTermSyms == PassiveSyms \cup SourceSyms \cup {"wire"}
Item(k, a, b, rev, deg) == [k |-> k, a |-> a, b |-> b, rev |-> rev, deg |-> deg]

\* ---- connectivity: least fixpoint of "joined by a wire"
Wires(prog) == {i \in DOMAIN prog : prog[i].k = "wire"}
RECURSIVE Close(_,_)
Close(prog, S) == LET T == S \cup {prog[i].b : i \in {j \in Wires(prog) : prog[j].a \in S}} \cup {prog[i].a : i \in {j \in Wires(prog) : prog[j].b \in S}}
                  IN IF T = S THEN S ELSE Close(prog, T)
Rep(prog, p) == SetMin(Close(prog, {p}))          \* the class of a point, named by its smallest point

\* ---- values by item index (so that a value taken from another symbol shows)
Pw(i) == <<2, 3, 4, 5, 6, 7, 8, 9>>[i]          \* small (exact 32-bit arithmetic), distinct per item
UnitOf(i) == << <<Q(3,5), Q(4,5)>>, CJ1, <<Q(4,5), Q(-3,5)>>, C1, <<Q(-4,5), Q(3,5)>>, CNeg(CJ1), <<Q(-3,5), Q(-4,5)>>, CNeg(C1) >>[i]
Sg(i) == IF i % 3 = 0 THEN -1 ELSE 1            \* source amplitudes of either sign (every third item negative)
\* the component a symbol denotes (kind and value record of module Circuit); nodes are added by Netlist
SymComp(k, i) ==
  CASE k = "R" -> [kind |-> "resistor", v |-> [R |-> RI(Pw(i))]]
    [] k = "G" -> [kind |-> "conductance", v |-> [G |-> Q(1, Pw(i))]]
    [] k = "Z" -> [kind |-> "impedance", v |-> [R |-> RI(Pw(i)), X |-> RI(-i)]]
    [] k = "C" -> [kind |-> "capacitor", v |-> [C |-> Q(1, Pw(i))]]
    [] k = "L" -> [kind |-> "inductance", v |-> [L |-> Q(Pw(i), 2)]]
    [] k = "lamp" -> [kind |-> "lamp", v |-> [P |-> RI(Pw(i)), V_ref |-> RI(2)]]
    [] k = "sw_open" -> [kind |-> "switch_open", v |-> [x |-> 0]]
    [] k = "sw_closed" -> [kind |-> "switch_closed", v |-> [x |-> 0]]
    [] k = "lline" -> [kind |-> "short_circuit", v |-> [x |-> 0]]
    [] k = "V" -> [kind |-> "dc_voltage_source", v |-> [V |-> RI(Sg(i) * (i + 1)), R |-> R0]]
    [] k = "I" -> [kind |-> "dc_current_source", v |-> [I |-> Q(Sg(i) * i, 2), G |-> R0]]
    [] k = "ACV" -> [kind |-> "ac_voltage_source", v |-> [V |-> RI(Sg(i) * Pw(i)), R |-> R0, w |-> RI(2), u |-> UnitOf(i)]]
    [] k = "ACI" -> [kind |-> "ac_current_source", v |-> [I |-> RI(Sg(i) * i), G |-> R0, w |-> RI(2), u |-> UnitOf(i)]]
    [] k = "CV" -> [kind |-> "complex_voltage_source", v |-> [V |-> <<RI(i), RI(2)>>, Z |-> C0]]
    [] k = "CI" -> [kind |-> "complex_current_source", v |-> [I |-> <<RI(1), RI(-i)>>, Y |-> C0]]
    [] k \in {"RectV", "TriV", "SawV"} -> [kind |-> "periodic_voltage_source",
             v |-> [wave |-> (IF k = "RectV" THEN "rect" ELSE IF k = "TriV" THEN "tri" ELSE "saw"), V |-> RI(i + 1), w |-> RI(3), u |-> UnitOf(i), R |-> R0]]
    [] k \in {"RectI", "TriI", "SawI"} -> [kind |-> "periodic_current_source",
             v |-> [wave |-> (IF k = "RectI" THEN "rect" ELSE IF k = "TriI" THEN "tri" ELSE "saw"), I |-> RI(i), w |-> RI(3), u |-> UnitOf(i), G |-> R0]]

IsComp(it) == it.k \in PassiveSyms \cup SourceSyms
CompIdx(prog) == {i \in DOMAIN prog : IsComp(prog[i])}
\* terminal order: start -> end, reversed for sources (and labelled wires) marked rev
N1(prog, i) == Rep(prog, IF prog[i].rev /\ prog[i].k \in SourceSyms THEN prog[i].b ELSE prog[i].a)
N2(prog, i) == Rep(prog, IF prog[i].rev /\ prog[i].k \in SourceSyms THEN prog[i].a ELSE prog[i].b)
\* the intended netlist: components in insertion order
Netlist(prog) == LET idx == CompIdx(prog) IN
   [j \in 1..Cardinality(idx) |-> LET i == NthOf(idx, j) sc == SymComp(prog[i].k, i) IN
       [kind |-> sc.kind, id |-> i, n1 |-> N1(prog, i), n2 |-> N2(prog, i), v |-> sc.v, deg |-> prog[i].deg, rev |-> prog[i].rev]]
GndIdx(prog) == {i \in DOMAIN prog : prog[i].k = "gnd"}
HasGnd(prog) == GndIdx(prog) # {}
GndClass(prog) == Rep(prog, prog[CHOOSE i \in GndIdx(prog) : TRUE].a)
LabelIdx(prog) == {i \in DOMAIN prog : prog[i].k = "label"}
Labels(prog) == [i \in LabelIdx(prog) |-> <<i, Rep(prog, prog[i].a)>>]
\* reference of the translated circuit: the ground's class, else the first terminal of the first component
RefClass(prog) == IF HasGnd(prog) THEN GndClass(prog) ELSE Netlist(prog)[1].n1

\* ---- the network of the intended netlist at angular frequency w (for solutions)
DrawElem(c, w, res) == IF c.kind = "switch_open" THEN WithPi(EOpen, 0)
                       ELSE IF c.kind = "switch_closed" THEN WithPi(EShort, 0)
                       ELSE ElementAt(c, w, res)
DrawNet(prog, w, res) == LET nl == Netlist(prog) IN [j \in DOMAIN nl |-> Br(nl[j].id, nl[j].n1, nl[j].n2, DrawElem(nl[j], w, res))]

\* ---- transformations of a program that must leave the netlist unchanged up to renaming of nodes
Rot(p) == 3 * X(p) + (2 - Y(p))                  \* quarter turn of the grid
MapPts(prog, f(_)) == [i \in DOMAIN prog |-> [prog[i] EXCEPT !.a = f(@), !.b = f(@)]]
SwapItems(prog, i) == [j \in DOMAIN prog |-> IF j = i THEN prog[i + 1] ELSE IF j = i + 1 THEN prog[i] ELSE prog[j]]
\* same components between the same classes, compared through the partition of points they induce
SameUpToRenaming(p1, f(_), p2) ==
   /\ \A x, y \in Pts : (Rep(p1, x) = Rep(p1, y)) <=> (Rep(p2, f(x)) = Rep(p2, f(y)))
   /\ LET n1 == Netlist(p1) n2 == Netlist(p2) IN
      /\ Len(n1) = Len(n2)
      /\ \A j \in DOMAIN n1 : n1[j].kind = n2[j].kind /\ n1[j].v = n2[j].v /\ Rep(p2, f(n1[j].n1)) = n2[j].n1 /\ Rep(p2, f(n1[j].n2)) = n2[j].n2
=============================================================================
