-------------------------------- MODULE Net --------------------------------
(***************************************************************************)
(* Networks of two-terminal elements, their steady-state solution, port    *)
(* behaviour and the network transformers of CircuitCalculator.Network.    *)
(*                                                                         *)
(* An element mirrors the library's two dataclasses                        *)
(*    NortenElement(Z, V)    -> [f |-> "N", imm |-> Z, src |-> V]           *)
(*    TheveninElement(Y, I)  -> [f |-> "T", imm |-> Y, src |-> I]           *)
(* (the library's naming, not the textbook's) plus the constructor that    *)
(* made it (k) and its arguments (a), so that a conformance harness can    *)
(* build the very same object through the public constructor.              *)
(*                                                                         *)
(* A branch is an element between an ordered pair of nodes with an         *)
(* identifier; a network is a sequence of branches and a reference node.   *)
(* Nodes and identifiers are integers here; the harness realises them by   *)
(* strings under several naming schemes (results must not depend on them). *)
(***************************************************************************)
EXTENDS Num

\* ------------------------------------------------------------------ elements
\* constructors of Network/elements.py (arguments are Gaussian rationals)
EResistor(R)        == [f |-> "N", imm |-> R,  src |-> C0, k |-> "resistor",  a |-> <<R>>]
EImpedance(Z)       == [f |-> "N", imm |-> Z,  src |-> C0, k |-> "impedance", a |-> <<Z>>]
EConductor(G)       == [f |-> "T", imm |-> G,  src |-> C0, k |-> "conductor", a |-> <<G>>]
EAdmittance(Y)      == [f |-> "T", imm |-> Y,  src |-> C0, k |-> "admittance", a |-> <<Y>>]
\* load(P, V_ref, Q): Y = (P + jQ)/V_ref^2 ; load(P, I_ref, Q): Z = (P + jQ)/I_ref^2
ELoadV(P, Vr, Qr)   == [f |-> "T", imm |-> CDiv(CAdd(P, CMul(CJ1, Qr)), CMul(Vr, Vr)), src |-> C0, k |-> "load_v", a |-> <<P, Vr, Qr>>]
ELoadI(P, Ir, Qr)   == [f |-> "N", imm |-> CDiv(CAdd(P, CMul(CJ1, Qr)), CMul(Ir, Ir)), src |-> C0, k |-> "load_i", a |-> <<P, Ir, Qr>>]
EVoltageSource(V, Z) == [f |-> "N", imm |-> Z, src |-> V, k |-> "voltage_source", a |-> <<V, Z>>]
ECurrentSource(I, Y) == [f |-> "T", imm |-> Y, src |-> I, k |-> "current_source", a |-> <<I, Y>>]
EShort              == [f |-> "N", imm |-> C0, src |-> C0, k |-> "short_circuit", a |-> <<>>]
EOpen               == [f |-> "T", imm |-> C0, src |-> C0, k |-> "open_circuit",  a |-> <<>>]

\* predicates of elements.py, on the abstract record
IsIdealV(e)  == e.f = "N" /\ CIsZero(e.imm)                 \* is_ideal_voltage_source (includes the short)
IsIdealI(e)  == e.f = "T" /\ CIsZero(e.imm)                 \* is_ideal_current_source (includes the open)
IsShortE(e)  == IsIdealV(e) /\ CIsZero(e.src)               \* is_short_circuit
IsOpenE(e)   == IsIdealI(e) /\ CIsZero(e.src)               \* is_open_circuit
IsVSrc(e)    == (e.f = "N" /\ ~CIsZero(e.src))                             \* is_voltage_source: |V| > 0
             \/ (e.f = "T" /\ ~CIsZero(e.src) /\ ~CIsZero(e.imm))          \* V = I/Y of a lossy current source
IsCSrc(e)    == (e.f = "T" /\ ~CIsZero(e.src))                             \* is_current_source: |I| > 0
             \/ (e.f = "N" /\ ~CIsZero(e.src) /\ ~CIsZero(e.imm))          \* I = V/Z of a lossy voltage source
IsActive(e)  == ~CIsZero(e.src)
IsLinearSrc(e) == ~CIsZero(e.src) /\ ~CIsZero(e.imm)        \* "linear" (lossy) source of either form
IsPassive(e) == CIsZero(e.src) /\ ~CIsZero(e.imm)

\* ------------------------------------------------------------------ networks
\* branch: [id, n1, n2, e] ; net: [br : Seq(branch), ref : node]
Br(id, n1, n2, e) == [id |-> id, n1 |-> n1, n2 |-> n2, e |-> e]
Used(br) == {br[i].n1 : i \in DOMAIN br} \cup {br[i].n2 : i \in DOMAIN br}
Ids(br)  == {br[i].id : i \in DOMAIN br}
ValidNet(br, ref) == /\ (br = <<>> \/ ref \in Used(br))                         \* else FloatingGroundNode
                     /\ Cardinality(Ids(br)) = Len(br)                           \* else AmbiguousBranchIDs

RECURSIVE Reach(_,_,_)
\* nodes reachable from S over the branches whose index is in E
Reach(br, E, S) == LET T == S \cup {br[i].n2 : i \in {j \in E : br[j].n1 \in S}}
                                \cup {br[i].n1 : i \in {j \in E : br[j].n2 \in S}}
                   IN IF T = S THEN S ELSE Reach(br, E, T)
Connected(br) == br # <<>> /\ Reach(br, DOMAIN br, {br[1].n1}) = Used(br)

\* ------------------------------------------------------- modified nodal analysis
NZ(br, ref) == Used(br) \ {ref}
VS(br) == {i \in DOMAIN br : IsIdealV(br[i].e)}
Adm(e)  == IF e.f = "N" THEN CInv(e.imm) ELSE e.imm                 \* only for non-ideal-V elements
Isrc(e) == IF e.f = "N" THEN (IF CIsZero(e.src) THEN C0 ELSE CDiv(e.src, e.imm)) ELSE e.src
NodeAt(br, ref, r) == NthOf(NZ(br, ref), r)
VSAt(br, r) == NthOf(VS(br), r)
Dim(br, ref) == Cardinality(NZ(br, ref)) + Cardinality(VS(br))
Inc(b, n) == IF b.n1 = n THEN C1 ELSE IF b.n2 = n THEN CNeg(C1) ELSE C0
MNA(br, ref) == LET nn == Cardinality(NZ(br, ref)) n == Dim(br, ref) L == Len(br) IN
   [r \in 1..n |-> [c \in 1..n |->
      IF r <= nn /\ c <= nn THEN
          LET a == NodeAt(br, ref, r) b == NodeAt(br, ref, c) IN
          IF a = b THEN CSumF([i \in 1..L |-> IF i \notin VS(br) /\ (br[i].n1 = a \/ br[i].n2 = a) THEN Adm(br[i].e) ELSE C0], 1, L)
          ELSE CNeg(CSumF([i \in 1..L |-> IF i \notin VS(br) /\ {br[i].n1, br[i].n2} = {a,b} THEN Adm(br[i].e) ELSE C0], 1, L))
      ELSE IF r <= nn THEN Inc(br[VSAt(br, c-nn)], NodeAt(br, ref, r))
      ELSE IF c <= nn THEN Inc(br[VSAt(br, r-nn)], NodeAt(br, ref, c))
      ELSE C0]]
RHS(br, ref) == LET nn == Cardinality(NZ(br, ref)) n == Dim(br, ref) L == Len(br) IN
   [r \in 1..n |-> IF r <= nn THEN LET a == NodeAt(br, ref, r) IN
                        CSumF([i \in 1..L |-> IF i \notin VS(br) THEN CNeg(CMul(Inc(br[i], a), Isrc(br[i].e))) ELSE C0], 1, L)
                   ELSE br[VSAt(br, r-nn)].e.src]
\* every branch joins two different nodes, the reference is a used node, and the
\* circuit equations have exactly one solution
WellPosed(br, ref) == /\ br # <<>> /\ ref \in Used(br)
                      /\ \A i \in DOMAIN br : br[i].n1 # br[i].n2
                      /\ ~CIsZero(Det(MNA(br, ref), Dim(br, ref)))
Solve(br, ref) == Cramer(MNA(br, ref), Dim(br, ref), RHS(br, ref))
\* the same in one pass: <<>> if the network is not well posed, else the solution vector
\* (saves evaluating the determinant twice; used by the bounded models)
Structural(br, ref) == br # <<>> /\ ref \in Used(br) /\ \A i \in DOMAIN br : br[i].n1 # br[i].n2
SolveOpt(br, ref) == IF ~Structural(br, ref) THEN <<>> ELSE
    LET M == MNA(br, ref) n == Dim(br, ref) d == Det(M, n) IN
    IF CIsZero(d) THEN <<>> ELSE LET b == RHS(br, ref) IN [j \in 1..n |-> CDiv(Det(ReplaceCol(M, n, j, b), n), d)]
\* the same through integer-scaled determinants (slower; smaller intermediate numbers)
SolveOptI(br, ref) == IF ~Structural(br, ref) THEN <<>> ELSE CramerI(MNA(br, ref), Dim(br, ref), RHS(br, ref))

\* quantities read off a solution vector s
Phi(br, ref, s, n) == IF n = ref THEN C0 ELSE s[Rank(NZ(br, ref), n)]
U(br, ref, s, i) == CSub(Phi(br, ref, s, br[i].n1), Phi(br, ref, s, br[i].n2))
\* physical current through branch i from its first to its second terminal
Flow(br, ref, s, i) == LET e == br[i].e IN
    IF IsIdealV(e) THEN s[Cardinality(NZ(br, ref)) + Rank(VS(br), i)]
    ELSE CAdd(Isrc(e), CMul(Adm(e), U(br, ref, s, i)))
\* the library's reported current: generator direction for lossy sources
IRep(br, ref, s, i) == IF IsLinearSrc(br[i].e) THEN CNeg(Flow(br, ref, s, i)) ELSE Flow(br, ref, s, i)
Pow(br, ref, s, i) == CMul(U(br, ref, s, i), CConj(IRep(br, ref, s, i)))

\* ------------------------------------------------ declarative characterisation
\* phi : node -> Gaussian, flow : branch index -> Gaussian
ElementLaw(e, u, fl) ==
    IF e.f = "N" THEN (IF CIsZero(e.imm) THEN u = e.src                      \* ideal voltage source / short
                       ELSE CMul(e.imm, fl) = CAdd(u, e.src))                \* Z*Flow = U + V
    ELSE fl = CAdd(e.src, CMul(e.imm, u))                                    \* Flow = I + Y*U
KCL(br, flow, n) == CIsZero(CSub(CSumF([i \in 1..Len(br) |-> IF br[i].n1 = n THEN flow[i] ELSE C0], 1, Len(br)),
                                 CSumF([i \in 1..Len(br) |-> IF br[i].n2 = n THEN flow[i] ELSE C0], 1, Len(br))))
IsSolution(br, ref, phi, flow) ==
    /\ CIsZero(phi[ref])
    /\ \A n \in Used(br) : KCL(br, flow, n)                                  \* reference node included
    /\ \A i \in DOMAIN br : ElementLaw(br[i].e, CSub(phi[br[i].n1], phi[br[i].n2]), flow[i])
IsSolutionVec(br, ref, s) ==
    IsSolution(br, ref, [n \in Used(br) |-> Phi(br, ref, s, n)], [i \in DOMAIN br |-> Flow(br, ref, s, i)])
SolvedIsSolution(br, ref) ==
    LET s == Solve(br, ref) IN
    IsSolution(br, ref, [n \in Used(br) |-> Phi(br, ref, s, n)], [i \in DOMAIN br |-> Flow(br, ref, s, i)])
\* Tellegen: absorbed powers (passive sign convention) sum to zero; the library reports
\* delivered power for lossy sources, so those enter with a minus sign
PowerBalance(br, ref, s) ==
    CIsZero(CSumF([i \in 1..Len(br) |-> IF IsLinearSrc(br[i].e) THEN CNeg(Pow(br, ref, s, i)) ELSE Pow(br, ref, s, i)], 1, Len(br)))

\* ---------------------------------------------------------------- transformers
SetElem(b, e) == [b EXCEPT !.e = e]
\* short_circuitify_voltage_sources(keep): a voltage source becomes impedance(Z)
ZeroV(br, keep) == [i \in DOMAIN br |-> IF br[i].id \notin keep /\ IsVSrc(br[i].e)
                      THEN SetElem(br[i], EImpedance(IF br[i].e.f = "N" THEN br[i].e.imm ELSE CInv(br[i].e.imm))) ELSE br[i]]
\* open_circuitify_current_sources(keep): a current source becomes admittance(Y)
ZeroI(br, keep) == [i \in DOMAIN br |-> IF br[i].id \notin keep /\ IsCSrc(br[i].e)
                      THEN SetElem(br[i], EAdmittance(IF br[i].e.f = "T" THEN br[i].e.imm ELSE CInv(br[i].e.imm))) ELSE br[i]]
FilterIdx(br, S) == LET RECURSIVE F(_) F(i) == IF i > Len(br) THEN <<>> ELSE (IF i \in S THEN <<br[i]>> ELSE <<>>) \o F(i+1) IN F(1)
RemoveOpen(br) == FilterIdx(br, {i \in DOMAIN br : ~IsOpenE(br[i].e)})
RemoveId(br, id) == FilterIdx(br, {i \in DOMAIN br : br[i].id # id})
\* contraction of one short branch: node 'an' is absorbed into 'rn'
Relabel(br, an, rn) == [i \in DOMAIN br |-> [br[i] EXCEPT !.n1 = IF @ = an THEN rn ELSE @, !.n2 = IF @ = an THEN rn ELSE @]]
DropLoops(br) == FilterIdx(br, {i \in DOMAIN br : br[i].n1 # br[i].n2})
\* the electrical meaning of "all non-exempt shorts contracted": node classes
ShortIdx(br, keep) == {i \in DOMAIN br : IsShortE(br[i].e) /\ br[i].id \notin keep}
ShortClass(br, keep, n) == Reach(br, ShortIdx(br, keep), {n})
\* canonical contraction: every node is renamed to the representative of its class
\* (the reference if it is in the class, otherwise the smallest node)
ClassRep(br, ref, keep, n) == LET c == ShortClass(br, keep, n) IN IF ref \in c THEN ref ELSE SetMin(c)
ContractShorts(br, ref, keep) ==
    DropLoops([i \in DOMAIN br |-> [br[i] EXCEPT !.n1 = ClassRep(br, ref, keep, @), !.n2 = ClassRep(br, ref, keep, @)]])

\* The set of results a contraction of the non-exempt shorts of 'pre' may return, as a predicate on a
\* candidate 'out' (a sequence of branches): surviving branches are a subsequence of pre with identical
\* elements and orientation, their terminals renamed by ONE node map that only merges nodes joined by
\* non-exempt shorts, and only branches whose terminals are so joined may disappear.  Which label a merged
\* node keeps is free, except that the reference keeps its own.
SameElemE(e1, e2) == e1.f = e2.f /\ e1.imm = e2.imm /\ e1.src = e2.src
OutIdx(out, id) == CHOOSE j \in DOMAIN out : out[j].id = id
ContractionWhy(pre, ref, K, out) ==
   LET outIds == {out[j].id : j \in DOMAIN out}
       surv   == {i \in DOMAIN pre : pre[i].id \in outIds}
       pairs  == {<<pre[i].n1, out[OutIdx(out, pre[i].id)].n1>> : i \in surv} \cup {<<pre[i].n2, out[OutIdx(out, pre[i].id)].n2>> : i \in surv}
   IN IF Cardinality(outIds) # Len(out) \/ ~(outIds \subseteq Ids(pre)) THEN "ids"
      ELSE IF \E i \in surv : ~SameElemE(out[OutIdx(out, pre[i].id)].e, pre[i].e) THEN "element_changed"
      ELSE IF \E p, q \in pairs : p[1] = q[1] /\ p[2] # q[2] THEN "node_map_not_a_function"
      ELSE IF \E p \in pairs : p[2] \notin ShortClass(pre, K, p[1]) THEN "merged_nodes_not_joined_by_shorts"
      ELSE IF \E p \in pairs : p[1] = ref /\ p[2] # ref THEN "reference_label_lost"
      ELSE IF \E i \in DOMAIN pre \ surv : pre[i].n2 \notin ShortClass(pre, K, pre[i].n1) THEN "branch_dropped"
      ELSE "ok"
\* node map of an allowed contraction (only defined where a surviving branch fixes it)
ContractionMap(pre, out) == LET outIds == {out[j].id : j \in DOMAIN out} surv == {i \in DOMAIN pre : pre[i].id \in outIds} IN
   {<<pre[i].n1, out[OutIdx(out, pre[i].id)].n1>> : i \in surv} \cup {<<pre[i].n2, out[OutIdx(out, pre[i].id)].n2>> : i \in surv}
\* electrical identity: same voltage / flow on survivors, same potential on mapped nodes
SameOnSurvivorsWhy(pre, ref, s0, out, s2) ==
   IF \E j \in DOMAIN out : LET i == CHOOSE k \in DOMAIN pre : pre[k].id = out[j].id IN
          U(out, ref, s2, j) # U(pre, ref, s0, i) \/ Flow(out, ref, s2, j) # Flow(pre, ref, s0, i) THEN "solution_changed_on_branch"
   ELSE IF \E p \in ContractionMap(pre, out) : Phi(out, ref, s2, p[2]) # Phi(pre, ref, s0, p[1]) THEN "solution_changed_on_node"
   ELSE "ok"

\* ------------------------------------------------------------- port behaviour
\* every independent source deactivated: ideal V -> short, current source -> open,
\* internal immittances kept
Deactivate(br) == [i \in DOMAIN br |-> LET e == br[i].e IN
    IF CIsZero(e.src) THEN br[i]
    ELSE IF e.f = "N" THEN SetElem(br[i], IF CIsZero(e.imm) THEN EShort ELSE EImpedance(e.imm))
    ELSE SetElem(br[i], IF CIsZero(e.imm) THEN EOpen ELSE EAdmittance(e.imm))]
Conductive(br) == {i \in DOMAIN br : ~IsOpenE(br[i].e)}
\* the part of the deactivated network conductively connected to node a
PortPart(br, a) == LET d == Deactivate(br) S == Reach(d, Conductive(d), {a}) IN
    FilterIdx(d, {i \in Conductive(d) : d[i].n1 \in S /\ d[i].n2 \in S})
PortConnected(br, a, b) == LET d == Deactivate(br) IN b \in Reach(d, Conductive(d), {a})
\* unit test current injected from b to a (id 0 is reserved for the test source)
PortNet(br, a, b) == Append(PortPart(br, a), Br(0, b, a, ECurrentSource(C1, C0)))
PortDefined(br, a, b) == a # b /\ PortConnected(br, a, b) /\ WellPosed(PortNet(br, a, b), b)
PortZ(br, a, b) == IF a = b THEN C0 ELSE
    LET pn == PortNet(br, a, b) s == Solve(pn, b) IN Phi(pn, b, s, a)
\* impedance seen by element i: the port of its terminals with the element removed
ElemPortBr(br, i) == FilterIdx(br, DOMAIN br \ {i})

\* ---------------------------------------------------------------- JSON helpers
\* (records are emitted as they are; Gaussian rationals appear as [[n,d],[n,d]])
=============================================================================
