------------------------------- MODULE CircGen -------------------------------
(***************************************************************************)
(* Scenario generator for component circuits (C02, C05, C09, C10-C12):     *)
(* the state is a component list under construction plus the placement of  *)
(* the ground component.  Values depend on the list position.              *)
(***************************************************************************)
EXTENDS Circuit, Json
CONSTANTS MaxB, MaxN, Kinds, SymKinds, Canon, Gnds
VARIABLES cs, gnd          \* cs: sequence of non-ground components; gnd: NoGnd (no ground component) or its node
NoGnd == 9
vars == <<cs, gnd>>
Nodes == 0..(MaxN - 1)
Pv(p) == <<2, 3, 5, 7, 11>>[p]
UnitAt(p) == << <<Q(3,5), Q(4,5)>>, CJ1, <<Q(5,13), Q(-12,13)>>, C1, <<Q(-4,5), Q(3,5)>> >>[p]
QuarterAt(p) == << CJ1, C1, CNeg(CJ1), CNeg(C1), CJ1 >>[p]      \* phases of periodic sources: quarter turns (u^n stays small)
AllKinds == <<"R","G","Z","Y","C","L","LP","LD","SC","DV","DVR","AV1","AVR1","AV2","DI","DIG","AI1","AIG1","AI2","CV","CI",
              "PVr","PVt","PVs","PIr","PVRr","PV10","AV03","PIs","Ra","La","Ca","Rb","Lb","Cb","AVn","AVm","PVh","PIh","AVk","AIk">>
KindNo(k) == CHOOSE i \in 1..Len(AllKinds) : AllKinds[i] = k

CompOf(k, p, n1, n2) ==
  LET id == p IN
  CASE k = "R"   -> Comp("resistor", id, n1, n2, [R |-> RI(Pv(p))])
    [] k = "G"   -> Comp("conductance", id, n1, n2, [G |-> Q(1, Pv(p))])
    [] k = "Z"   -> Comp("impedance", id, n1, n2, [R |-> RI(Pv(p)), X |-> RI(p)])
    [] k = "Y"   -> Comp("admittance", id, n1, n2, [G |-> Q(1, Pv(p)), B |-> Q(-1, p + 1)])
    [] k = "C"   -> Comp("capacitor", id, n1, n2, [C |-> Q(1, Pv(p))])
    [] k = "L"   -> Comp("inductance", id, n1, n2, [L |-> Q(Pv(p), 2)])
    [] k = "LP"  -> Comp("lamp", id, n1, n2, [P |-> RI(Pv(p)), V_ref |-> RI(2)])
    [] k = "LD"  -> Comp("resistive_load", id, n1, n2, [P |-> RI(p), V_ref |-> RI(3)])
    [] k = "SC"  -> Comp("short_circuit", id, n1, n2, [x |-> 0])
    [] k = "DV"  -> Comp("dc_voltage_source", id, n1, n2, [V |-> RI(p + 1), R |-> R0])
    [] k = "DVR" -> Comp("dc_voltage_source", id, n1, n2, [V |-> RI(-Pv(p)), R |-> RI(p)])
    [] k = "AV1" -> Comp("ac_voltage_source", id, n1, n2, [V |-> RI(p + 2), R |-> R0, w |-> R1, u |-> UnitAt(p)])
    [] k = "AVR1" -> Comp("ac_voltage_source", id, n1, n2, [V |-> RI(Pv(p)), R |-> RI(p), w |-> R1, u |-> UnitAt(p)])
    [] k = "AV2" -> Comp("ac_voltage_source", id, n1, n2, [V |-> RI(p), R |-> R0, w |-> RI(2), u |-> UnitAt(p + 1)])
    [] k = "DI"  -> Comp("dc_current_source", id, n1, n2, [I |-> RI(p), G |-> R0])
    [] k = "DIG" -> Comp("dc_current_source", id, n1, n2, [I |-> RI(Pv(p)), G |-> Q(1, p + 1)])
    [] k = "AI1" -> Comp("ac_current_source", id, n1, n2, [I |-> RI(p + 1), G |-> R0, w |-> R1, u |-> UnitAt(p + 1)])
    [] k = "AIG1" -> Comp("ac_current_source", id, n1, n2, [I |-> RI(Pv(p)), G |-> Q(1, p + 1), w |-> R1, u |-> UnitAt(p)])
    [] k = "AI2" -> Comp("ac_current_source", id, n1, n2, [I |-> RI(-p), G |-> R0, w |-> RI(2), u |-> UnitAt(p)])
    [] k = "CV"  -> Comp("complex_voltage_source", id, n1, n2, [V |-> <<RI(p), RI(1)>>, Z |-> C0])
    [] k = "CI"  -> Comp("complex_current_source", id, n1, n2, [I |-> <<RI(1), RI(-p)>>, Y |-> C0])
    [] k = "PVr" -> Comp("periodic_voltage_source", id, n1, n2, [wave |-> "rect", V |-> RI(p + 1), w |-> R1, u |-> QuarterAt(p), R |-> R0])
    [] k = "PVt" -> Comp("periodic_voltage_source", id, n1, n2, [wave |-> "tri", V |-> RI(Pv(p)), w |-> Q(1,2), u |-> QuarterAt(p + 1), R |-> R0])
    [] k = "PVs" -> Comp("periodic_voltage_source", id, n1, n2, [wave |-> "saw", V |-> RI(-p), w |-> R1, u |-> QuarterAt(p), R |-> R0])
    [] k = "PVRr" -> Comp("periodic_voltage_source", id, n1, n2, [wave |-> "rect", V |-> RI(p), w |-> R1, u |-> QuarterAt(p), R |-> RI(p)])
    [] k = "PV10" -> Comp("periodic_voltage_source", id, n1, n2, [wave |-> "rect", V |-> RI(p + 1), w |-> Q(1,10), u |-> QuarterAt(p), R |-> R0])
    [] k = "AV03" -> Comp("ac_voltage_source", id, n1, n2, [V |-> RI(p + 2), R |-> R0, w |-> Q(3,10), u |-> UnitAt(p + 1)])
    [] k = "PIs" -> Comp("periodic_current_source", id, n1, n2, [wave |-> "saw", I |-> RI(p), w |-> R1, u |-> QuarterAt(p), G |-> Q(1, p + 1)])
    \* designed families with Gaussian-rational complex poles: s^2 + 2 s + 5
    [] k = "Ra"  -> Comp("resistor", id, n1, n2, [R |-> RI(2)])
    [] k = "La"  -> Comp("inductance", id, n1, n2, [L |-> RI(1)])
    [] k = "Ca"  -> Comp("capacitor", id, n1, n2, [C |-> Q(1, 5)])
    [] k = "Rb"  -> Comp("resistor", id, n1, n2, [R |-> Q(1, 2)])
    [] k = "Lb"  -> Comp("inductance", id, n1, n2, [L |-> Q(1, 5)])
    [] k = "Cb"  -> Comp("capacitor", id, n1, n2, [C |-> RI(1)])
    \* sources close to a harmonic of a periodic source: just outside the resolution of the 2nd harmonic of w0 = 2 (4 + 3/2000: off by
    \* 0.0015 rad/s, i.e. 0.00075 harmonic orders), and just inside the resolution of the 2nd harmonic of w0 = 1/2 (1 - 3/4000)
    [] k = "AVn" -> Comp("ac_voltage_source", id, n1, n2, [V |-> RI(p + 1), R |-> RI(1), w |-> Q(8003, 2000), u |-> CJ1])
    [] k = "AVm" -> Comp("ac_voltage_source", id, n1, n2, [V |-> RI(p + 2), R |-> RI(1), w |-> Q(3997, 4000), u |-> C1])
    [] k = "PVh" -> Comp("periodic_voltage_source", id, n1, n2, [wave |-> "saw", V |-> RI(p + 1), w |-> Q(1,2), u |-> QuarterAt(p), R |-> R0])
    [] k = "PIh" -> Comp("periodic_current_source", id, n1, n2, [wave |-> "saw", I |-> RI(p), w |-> RI(2), u |-> QuarterAt(p + 1), G |-> R0])
    [] k = "PIr" -> Comp("periodic_current_source", id, n1, n2, [wave |-> "rect", I |-> RI(p), w |-> RI(2), u |-> QuarterAt(p + 1), G |-> R0])
    \* sources at a high frequency (1000 rad/s): the resolution is absolute, not relative to the source frequency
    [] k = "AVk" -> Comp("ac_voltage_source", id, n1, n2, [V |-> RI(p + 1), R |-> R0, w |-> RI(1000), u |-> UnitAt(p)])
    [] k = "AIk" -> Comp("ac_current_source", id, n1, n2, [I |-> RI(p), G |-> R0, w |-> RI(1000), u |-> CJ1])

Code(n1, n2, k) == (n1 * MaxN + n2) * 64 + KindNo(k)
LastCode == IF cs = <<>> THEN 0 ELSE LET c == cs[Len(cs)] IN Code(c.n1, c.n2, c.kk)

Init == cs = <<>> /\ gnd \in Gnds
AddComp == /\ Len(cs) < MaxB
           /\ \E n1 \in Nodes, n2 \in Nodes, k \in Kinds :
                /\ n1 # n2
                /\ (k \in SymKinds => n1 < n2)
                /\ (Canon => Code(n1, n2, k) >= LastCode)
                /\ cs' = Append(cs, CompOf(k, Len(cs) + 1, n1, n2) @@ [kk |-> k])
           /\ UNCHANGED gnd
Next == AddComp
Spec == Init /\ [][Next]_vars

\* the listed circuit: the ground component (if any) is listed after the first component
Listed == IF gnd = NoGnd \/ cs = <<>> THEN cs ELSE <<cs[1]>> \o <<Ground(99, gnd) @@ [kk |-> "GND"]>> \o SubSeq(cs, 2, Len(cs))
UsedC == {cs[i].n1 : i \in DOMAIN cs} \cup {cs[i].n2 : i \in DOMAIN cs}
ShapeC == /\ cs # <<>>
          /\ UsedC = 0..(Cardinality(UsedC) - 1)
          /\ (gnd = NoGnd \/ gnd \in UsedC)
          /\ LET b0 == NetAt(cs, R0, R0) IN Connected(b0)
=============================================================================
