-------------------------------- MODULE Num --------------------------------
(***************************************************************************)
(* Exact numbers for the CircuitCalculator specification.                  *)
(*   rational  <<n, d>>   d > 0, gcd(n, d) = 1                             *)
(*   Gaussian  <<re, im>> re, im rationals                                 *)
(* and small dense linear algebra over Gaussian rationals (determinant by  *)
(* Laplace expansion, Cramer's rule, adjugate inverse).  TLC integers are  *)
(* 32 bit: overflow aborts TLC, it is never silent.                        *)
(***************************************************************************)
EXTENDS Integers, Sequences, FiniteSets, TLC

RECURSIVE GCD(_,_)
GCD(a, b) == IF b = 0 THEN a ELSE GCD(b, a % b)
Abs(x) == IF x < 0 THEN -x ELSE x
Norm(n, d) == LET g == GCD(Abs(n), Abs(d))
                  s == IF d < 0 THEN -1 ELSE 1
              IN  <<s * (n \div g), s * (d \div g)>>
Q(n, d) == Norm(n, d)
R0 == <<0,1>>
R1 == <<1,1>>
RI(n) == <<n, 1>>
RAdd(a, b) == IF a[1] = 0 THEN b ELSE IF b[1] = 0 THEN a ELSE
              LET g == GCD(a[2], b[2])
              IN Norm(a[1] * (b[2] \div g) + b[1] * (a[2] \div g), (a[2] \div g) * b[2])
RNeg(a) == <<-a[1], a[2]>>
RSub(a, b) == RAdd(a, RNeg(b))
RMul(a, b) == IF a[1] = 0 \/ b[1] = 0 THEN R0 ELSE
              LET g1 == GCD(Abs(a[1]), b[2])
                  g2 == GCD(Abs(b[1]), a[2])
              IN  <<(a[1] \div g1) * (b[1] \div g2), (a[2] \div g2) * (b[2] \div g1)>>
RInv(a) == IF a[1] < 0 THEN <<-a[2], -a[1]>> ELSE <<a[2], a[1]>>
RDiv(a, b) == RMul(a, RInv(b))
RLt(a, b) == a[1] * b[2] < b[1] * a[2]
RLe(a, b) == a[1] * b[2] <= b[1] * a[2]
RSign(a) == IF a[1] > 0 THEN 1 ELSE IF a[1] < 0 THEN -1 ELSE 0
RAbs(a) == <<Abs(a[1]), a[2]>>
RIsZero(a) == a[1] = 0
RFloor(a) == a[1] \div a[2]           \* TLA+ \div floors
RRound(a) == RFloor(RAdd(a, Q(1,2)))  \* round half up (ties never sampled)

\* ---------- Gaussian rationals <<re, im>>
C(re, im) == <<re, im>>
CR(n, d) == <<Q(n, d), R0>>
CI(n) == <<Q(n,1), R0>>
CJ(n, d) == <<R0, Q(n, d)>>
CQ(q) == <<q, R0>>
C0 == <<R0, R0>>
C1 == <<R1, R0>>
CJ1 == <<R0, R1>>
CAdd(a, b) == <<RAdd(a[1], b[1]), RAdd(a[2], b[2])>>
CNeg(a) == <<RNeg(a[1]), RNeg(a[2])>>
CSub(a, b) == CAdd(a, CNeg(b))
CMul(a, b) == IF a[2][1] = 0 /\ b[2][1] = 0 THEN <<RMul(a[1], b[1]), R0>> ELSE
              <<RSub(RMul(a[1], b[1]), RMul(a[2], b[2])), RAdd(RMul(a[1], b[2]), RMul(a[2], b[1]))>>
CConj(a) == <<a[1], RNeg(a[2])>>
CAbs2(a) == RAdd(RMul(a[1], a[1]), RMul(a[2], a[2]))
CInv(a) == IF a[2][1] = 0 THEN <<RInv(a[1]), R0>> ELSE LET m == CAbs2(a) IN <<RDiv(a[1], m), RNeg(RDiv(a[2], m))>>
CDiv(a, b) == CMul(a, CInv(b))
CIsZero(a) == a[1][1] = 0 /\ a[2][1] = 0
CIsReal(a) == a[2][1] = 0
CScale(r, a) == <<RMul(r, a[1]), RMul(r, a[2])>>
CRe(a) == a[1]
CIm(a) == a[2]
RECURSIVE CSumF(_,_,_)
CSumF(f, lo, hi) == IF lo > hi THEN C0 ELSE CAdd(f[lo], CSumF(f, lo+1, hi))
RECURSIVE RSumF(_,_,_)
RSumF(f, lo, hi) == IF lo > hi THEN R0 ELSE RAdd(f[lo], RSumF(f, lo+1, hi))
RECURSIVE CSumSeq(_)
CSumSeq(s) == IF s = <<>> THEN C0 ELSE CAdd(Head(s), CSumSeq(Tail(s)))
RECURSIVE CPow(_,_)
CPow(a, k) == IF k = 0 THEN C1 ELSE IF k % 2 = 0 THEN LET h == CPow(a, k \div 2) IN CMul(h, h) ELSE CMul(a, CPow(a, k - 1))

\* ---------- matrices [1..n -> [1..m -> Gaussian]]
Minor(M, n, i, j) == [r \in 1..(n-1) |-> [c \in 1..(n-1) |-> M[IF r < i THEN r ELSE r+1][IF c < j THEN c ELSE c+1]]]
RECURSIVE Det(_,_)
\* Laplace expansion along the LAST row, skipping zero entries: the rows that modified nodal
\* analysis appends for ideal voltage sources have at most two non-zero entries
Det(M, n) == IF n = 0 THEN C1 ELSE IF n = 1 THEN M[1][1]
             ELSE IF n = 2 THEN CSub(CMul(M[1][1], M[2][2]), CMul(M[1][2], M[2][1]))
             ELSE CSumF([j \in 1..n |-> IF CIsZero(M[n][j]) THEN C0 ELSE
                          LET t == CMul(M[n][j], Det(Minor(M, n, n, j), n-1)) IN IF (n + j) % 2 = 0 THEN t ELSE CNeg(t)], 1, n)
ReplaceCol(M, n, j, b) == [r \in 1..n |-> [c \in 1..n |-> IF c = j THEN b[r] ELSE M[r][c]]]
Cramer(M, n, b) == LET d == Det(M, n) IN [j \in 1..n |-> CDiv(Det(ReplaceCol(M, n, j, b), n), d)]
\* Cramer's rule after scaling every row of [M | b] to Gaussian integers (the ratio of determinants
\* is unchanged): determinants of integer matrices create no denominators, which keeps all
\* intermediate numbers far smaller than rational elimination does (32-bit integers in TLC).
LCM(a, b) == (a \div GCD(a, b)) * b
RECURSIVE LcmF(_,_,_)
LcmF(f, lo, hi) == IF lo > hi THEN 1 ELSE LCM(f[lo], LcmF(f, lo + 1, hi))
RowDen(M, n, b, r) == LCM(LcmF([c \in 1..n |-> LCM(M[r][c][1][2], M[r][c][2][2])], 1, n), LCM(b[r][1][2], b[r][2][2]))
ScaledM(M, n, b) == [r \in 1..n |-> LET l == RI(RowDen(M, n, b, r)) IN [c \in 1..n |-> CScale(l, M[r][c])]]
ScaledB(M, n, b) == [r \in 1..n |-> CScale(RI(RowDen(M, n, b, r)), b[r])]
\* division of Gaussian integers a / b with the content of b removed first (smaller intermediates)
GI(re, im) == <<RI(re), RI(im)>>
CDivI(a, b) == LET br == b[1][1] bi == b[2][1] ar == a[1][1] ai == a[2][1]
                   g  == GCD(Abs(br), Abs(bi))
                   pr == br \div g   pi == bi \div g
                   m  == pr * pr + pi * pi
               IN <<RDiv(Q(ar * pr + ai * pi, m), RI(g)), RDiv(Q(ai * pr - ar * pi, m), RI(g))>>
\* <<>> if singular
CramerI(M, n, b) == LET MI == ScaledM(M, n, b) bI == ScaledB(M, n, b) d == Det(MI, n) IN
   IF CIsZero(d) THEN <<>> ELSE
   LET N == [j \in 1..n |-> Det(ReplaceCol(MI, n, j, bI), n)]
       \* common integer content of all determinants
       g == LET RECURSIVE G(_) G(j) == IF j > n THEN GCD(Abs(d[1][1]), Abs(d[2][1])) ELSE GCD(GCD(Abs(N[j][1][1]), Abs(N[j][2][1])), G(j + 1)) IN G(1)
       dd == GI(d[1][1] \div g, d[2][1] \div g)
   IN [j \in 1..n |-> CDivI(GI(N[j][1][1] \div g, N[j][2][1] \div g), dd)]
Inverse(M, n) == LET d == Det(M, n) IN
   [r \in 1..n |-> [c \in 1..n |-> LET co == Det(Minor(M, n, c, r), n-1) IN CDiv(IF (r + c) % 2 = 0 THEN co ELSE CNeg(co), d)]]
MatVec(M, n, m, v) == [r \in 1..n |-> CSumF([c \in 1..m |-> CMul(M[r][c], v[c])], 1, m)]
MatMul(A, n, k, B, m) == [r \in 1..n |-> [c \in 1..m |-> CSumF([i \in 1..k |-> CMul(A[r][i], B[i][c])], 1, k)]]

\* Gauss-Jordan elimination on the augmented matrix [A | b]; <<>> if A is singular.
\* (Exact arithmetic: any non-zero pivot will do; the first one is taken.)
RECURSIVE GJ(_,_,_)
GJ(A, n, k) == IF k > n THEN A ELSE
   LET piv == {r \in k..n : ~CIsZero(A[r][k])} IN
   IF piv = {} THEN <<>>
   ELSE LET p == CHOOSE r \in piv : \A o \in piv : r <= o
            A1 == [r \in 1..n |-> IF r = k THEN A[p] ELSE IF r = p THEN A[k] ELSE A[r]]
            ip == CInv(A1[k][k])
            rowk == [c \in 1..(n+1) |-> IF c < k THEN C0 ELSE CMul(A1[k][c], ip)]
            A2 == [r \in 1..n |-> IF r = k THEN rowk
                                  ELSE IF CIsZero(A1[r][k]) THEN A1[r]
                                  ELSE [c \in 1..(n+1) |-> IF c < k THEN A1[r][c] ELSE CSub(A1[r][c], CMul(A1[r][k], rowk[c]))]]
        IN GJ(A2, n, k + 1)
\* solution vector of M x = b, or <<>> if M is singular
LinSolve(M, n, b) == IF n = 0 THEN [j \in 1..0 |-> C0] ELSE
   LET R == GJ([r \in 1..n |-> [c \in 1..(n+1) |-> IF c <= n THEN M[r][c] ELSE b[r]]], n, 1)
   IN IF R = <<>> THEN <<>> ELSE [j \in 1..n |-> R[j][n+1]]
NonSingular(M, n) == n = 0 \/ GJ([r \in 1..n |-> [c \in 1..(n+1) |-> IF c <= n THEN M[r][c] ELSE C0]], n, 1) # <<>>

\* ---------- small helpers on finite sets of integers
Rank(S, x) == Cardinality({m \in S : m < x}) + 1
NthOf(S, r) == CHOOSE x \in S : Rank(S, x) = r
SetMin(S) == CHOOSE m \in S : \A o \in S : m <= o
SetMax(S) == CHOOSE m \in S : \A o \in S : m >= o
RECURSIVE Pow10(_)
Pow10(k) == IF k <= 0 THEN 1 ELSE 10 * Pow10(k - 1)
=============================================================================
