------------------------------ MODULE Fourier ------------------------------
(***************************************************************************)
(* The six built-in periodic waveforms of SignalProcessing/periodic_       *)
(* functions.py, as                                                        *)
(*   (a) a descriptor of the time function itself: value as a function of  *)
(*       the fraction s of the period, jumps and slope jumps (piecewise    *)
(*       linear waves) - what the wave IS;                                 *)
(*   (b) the closed-form harmonic amplitude / phase the library claims.    *)
(* The true Fourier coefficient of a piecewise-linear periodic function    *)
(* follows from its jumps J_k and slope jumps S_k at the fractions s_k     *)
(* (jump method, two integrations by parts):                               *)
(*   c_n = (1/pi) * SUM_k J_k z_k^n / (2 j n) - (1/pi^2) * SUM_k S_k z_k^n / (4 n^2),   *)
(*   z_k = exp(-2 pi j s_k),  S_k in units of amplitude per period.        *)
(* With break points at multiples of a quarter period z_k is a power of -j *)
(* and every coefficient is a Gaussian rational times 1/pi or 1/pi^2.      *)
(* A number is carried as <<k, g>>, meaning g * pi^(-k).                   *)
(***************************************************************************)
EXTENDS Num

Waves == {"const", "cos", "sin", "rect", "tri", "saw"}
PLWaves == {"rect", "tri", "saw"}

\* ---- (a) the waveform itself, at zero phase, s = fraction of the period in [0,1), as rational
\* value at fraction s (never evaluated at a break point by the harness)
PLValue(w, A, off, s) ==
   IF w = "rect" THEN RAdd(IF RLt(s, Q(1,2)) THEN A ELSE RNeg(A), off)
   ELSE IF w = "tri" THEN RAdd(IF RLt(s, Q(1,2)) THEN RMul(A, RSub(R1, RMul(RI(4), s)))
                                ELSE RMul(A, RSub(RMul(RI(4), s), RI(3))), off)
   ELSE IF w = "saw" THEN RAdd(RMul(A, RSub(RMul(RI(2), s), R1)), off)
   ELSE A                                       \* const: offset ignored by the library's time function
\* cos / sin at an angle given as a rational point <<c, s>> of the unit circle
TrigValue(w, A, off, cs) == IF w = "cos" THEN RAdd(RMul(A, cs[1]), off) ELSE RAdd(RMul(A, cs[2]), off)

\* jumps f(s+) - f(s-) and slope jumps (per period) at quarter positions 0..3, zero phase
Jumps(w, A)  == IF w = "rect" THEN << <<0, RMul(RI(2), A)>>, <<2, RMul(RI(-2), A)>> >>
                ELSE IF w = "saw" THEN << <<0, RMul(RI(-2), A)>> >> ELSE <<>>
SJumps(w, A) == IF w = "tri" THEN << <<0, RMul(RI(-8), A)>>, <<2, RMul(RI(8), A)>> >> ELSE <<>>
\* mean value over a period
Mean(w, A, off) == IF w = "const" THEN A ELSE off

\* a phase of kq quarter turns shifts the wave to the left by kq quarter periods:
\* f_kq(s) = f_0(s + kq/4), so a break point at position p moves to p - kq (mod 4)
ShiftPos(p, kq) == (p - kq) % 4

JPow(e) == LET m == e % 4 IN IF m = 0 THEN C1 ELSE IF m = 1 THEN CJ1 ELSE IF m = 2 THEN CNeg(C1) ELSE CNeg(CJ1)
MinusJPow(e) == JPow(3 * (e % 4))                   \* (-j)^e
RECURSIVE SumSeq(_,_,_,_)
SumSeq(s, k, nn, kq) == IF k > Len(s) THEN C0
                        ELSE CAdd(CMul(CQ(s[k][2]), MinusJPow(nn * ShiftPos(s[k][1], kq))), SumSeq(s, k+1, nn, kq))
\* true coefficient c_n (n >= 1) of the wave with phase kq quarter turns: <<pi power, Gaussian>>
TrueCoef(w, A, nn, kq) ==
   IF w \in {"rect", "saw"} THEN <<1, CDiv(SumSeq(Jumps(w, A), 1, nn, kq), <<R0, RI(2 * nn)>>)>>
   ELSE <<2, CNeg(CDiv(SumSeq(SJumps(w, A), 1, nn, kq), CI(4 * nn * nn)))>>

\* ---- (b) the library's closed forms: amplitude = coef * pi^(-k), phase = q quarter turns + n * phi
\* <<k, coef, q>>
LibHarm(w, A, off, nn) ==
   IF nn = 0 THEN <<0, Mean(w, A, off), 0>>
   ELSE IF w = "cos" THEN (IF nn = 1 THEN <<0, A, 0>> ELSE <<0, R0, 0>>)
   ELSE IF w = "sin" THEN (IF nn = 1 THEN <<0, A, -1>> ELSE <<0, R0, 0>>)
   ELSE IF w = "rect" THEN (IF nn % 2 = 0 THEN <<1, R0, 0>> ELSE <<1, RMul(Q(4, nn), A), -1>>)
   ELSE IF w = "tri" THEN (IF nn % 2 = 0 THEN <<2, R0, 0>> ELSE <<2, RMul(Q(8, nn * nn), A), 0>>)
   ELSE IF w = "saw" THEN <<1, RMul(Q(-2, nn), A), -1>>
   ELSE <<0, R0, 0>>
\* amplitude(n) * exp(j phase(n)) for a phase given by the unit Gaussian u = exp(j phi):  <<k, Gaussian>>
HarmPhasor(w, A, off, nn, u) == LET l == LibHarm(w, A, off, nn) IN
   <<l[1], CMul(CMul(CQ(l[2]), JPow(l[3])), IF nn = 0 THEN C1 ELSE CPow(u, nn))>>
\* the same for a phase of kq quarter turns
HarmPhasorQ(w, A, off, nn, kq) == LET l == LibHarm(w, A, off, nn) IN
   <<l[1], CMul(CMul(CQ(l[2]), JPow(l[3])), IF nn = 0 THEN C1 ELSE JPow((kq % 4) * (nn % 4)))>>

\* ---- the theorem TLC checks (MC_C08): amplitude*exp(j*phase) = 2 c_n for n >= 1, = mean for n = 0
CoefficientsAreTrue(w, A, off, nn, kq) ==
   IF nn = 0 THEN HarmPhasorQ(w, A, off, 0, kq) = <<0, CQ(Mean(w, A, off))>>
   ELSE IF w \in PLWaves THEN
        LET l == HarmPhasorQ(w, A, off, nn, kq) t == TrueCoef(w, A, nn, kq) IN
        l[2] = CScale(RI(2), t[2]) /\ (CIsZero(l[2]) \/ l[1] = t[1])
   ELSE IF w = "cos" THEN HarmPhasorQ(w, A, off, nn, kq) = <<0, IF nn = 1 THEN CMul(CQ(A), JPow(kq)) ELSE C0>>
   ELSE IF w = "sin" THEN HarmPhasorQ(w, A, off, nn, kq) = <<0, IF nn = 1 THEN CMul(CQ(A), JPow(kq - 1)) ELSE C0>>
   ELSE HarmPhasorQ(w, A, off, nn, kq) = <<0, C0>>
=============================================================================
