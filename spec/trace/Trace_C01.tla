------------------------------ MODULE Trace_C01 ------------------------------
(***************************************************************************)
(* C01 beyond the exhaustive bound (up to 8 nodes / 14 branches).          *)
(* A driver PLANTS a solution: it chooses potentials and element values,   *)
(* derives every branch current from the element laws and balances every   *)
(* node with ideal current sources.  TLC judges the plant with the         *)
(* declarative characterisation of module Net - the reference at zero,     *)
(* Kirchhoff's current law at every node, every element law - and decides  *)
(* well-posedness topologically (valid for immittances with positive real  *)
(* part): ideal voltage sources and shorts form no loop, and the network   *)
(* stays connected when all ideal current sources and opens are removed.   *)
(* A planted network that passes has exactly that solution; the harness    *)
(* then compares the library's answers with it.                            *)
(***************************************************************************)
EXTENDS Net, Json, IOUtils
Events == JsonDeserialize(IOEnv.TRACE_FILE)
VARIABLE l

VIdx(b) == {i \in DOMAIN b : IsIdealV(b[i].e)}
NonIIdx(b) == {i \in DOMAIN b : ~IsIdealI(b[i].e)}
\* a set of branches is a forest iff  #edges = #touched nodes - #components
Touched(b, E) == {b[i].n1 : i \in E} \cup {b[i].n2 : i \in E}
RECURSIVE CountComps(_,_,_)
CountComps(b, E, S) == IF S = {} THEN 0 ELSE LET x == CHOOSE y \in S : TRUE IN 1 + CountComps(b, E, S \ Reach(b, E, {x}))
Forest(b, E) == Cardinality(E) = Cardinality(Touched(b, E)) - CountComps(b, E, Touched(b, E))
PositiveReal(b) == \A i \in DOMAIN b : CIsZero(b[i].e.imm) \/ RSign(CRe(b[i].e.imm)) > 0
TopologicallyWellPosed(b, ref) == /\ ref \in Used(b)
                                  /\ \A i \in DOMAIN b : b[i].n1 # b[i].n2
                                  /\ PositiveReal(b)
                                  /\ Forest(b, VIdx(b))
                                  /\ Reach(b, NonIIdx(b), {ref}) = Used(b)
Verdict(ev) == LET phi == [n \in Used(ev.br) |-> ev.phi[n + 1]] flow == [i \in DOMAIN ev.br |-> ev.flow[i]] IN
   IF ~TopologicallyWellPosed(ev.br, ev.ref) THEN "plant_not_well_posed"
   ELSE IF ~CIsZero(phi[ev.ref]) THEN "plant_reference_not_zero"
   ELSE IF \E n \in Used(ev.br) : ~KCL(ev.br, flow, n) THEN "plant_violates_kcl"
   ELSE IF \E i \in DOMAIN ev.br : ~ElementLaw(ev.br[i].e, CSub(phi[ev.br[i].n1], phi[ev.br[i].n2]), flow[i]) THEN "plant_violates_element_law"
   ELSE "ok"
Init == l = 1
Next == /\ l <= Len(Events)
        /\ (LET v == Verdict(Events[l]) IN v = "ok" \/ PrintT(<<"VERDICT", ToJson([tid |-> Events[l].tid, v |-> v])>>))
        /\ l' = l + 1
Spec == Init /\ [][Next]_l
Accepted == TLCGet("stats").diameter - 1 = Len(Events)
=============================================================================
