---------------------------- MODULE Trace_Session ----------------------------
(***************************************************************************)
(* Trace validation for C20 (code -> spec).  Each event is one public call *)
(* made in a long-lived process: the call's key (operation and the VALUES  *)
(* of its arguments), digests of every live object before and after, the   *)
(* digest of the result and the digest of the same call's result in a      *)
(* pristine process.  The specification (module Session) allows exactly:   *)
(* objects unchanged, result = the isolated result, and the same key       *)
(* always the same result.                                                 *)
(***************************************************************************)
EXTENDS Integers, Sequences, TLC, Json, IOUtils
Events == JsonDeserialize(IOEnv.TRACE_FILE)
VARIABLES l, seen
Verdict(ev) == IF ev.pre # ev.post THEN "argument_mutated"
               ELSE IF ev.res # ev.iso THEN "result_differs_from_isolation"
               ELSE IF ev.key \in DOMAIN seen /\ seen[ev.key] # ev.res THEN "not_repeatable"
               ELSE "ok"
Init == l = 1 /\ seen = [k \in {} |-> ""]
Next == /\ l <= Len(Events)
        /\ LET ev == Events[l] v == Verdict(ev) IN
           /\ (v = "ok" \/ PrintT(<<"VERDICT", ToJson([tid |-> ev.tid, v |-> v])>>))
           \* a new history (a fresh process state is NOT assumed: histories share the long-lived process) keeps 'seen'
           /\ seen' = IF ev.key \in DOMAIN seen THEN seen ELSE [k \in DOMAIN seen \cup {ev.key} |-> IF k = ev.key THEN ev.res ELSE seen[k]]
        /\ l' = l + 1
Spec == Init /\ [][Next]_<<l, seen>>
Accepted == TLCGet("stats").diameter - 1 = Len(Events)
=============================================================================
