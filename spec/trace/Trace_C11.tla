------------------------------ MODULE Trace_C11 ------------------------------
(***************************************************************************)
(* C11, simulated-energy clause (code -> spec): each event is the stored   *)
(* energy sum(C v^2)/2 + sum(L i^2)/2 of a simulated response at the       *)
(* samples after every source has returned to zero, as integers (scaled to *)
(* 10^9 at the largest sample).  A passive circuit cannot gain energy      *)
(* without excitation: E[k+1] <= E[k] + eps at every sample.               *)
(***************************************************************************)
EXTENDS Integers, Sequences, TLC, Json, IOUtils
Events == JsonDeserialize(IOEnv.TRACE_FILE)
VARIABLE l
Eps == 20          \* 2e-8 of the largest energy: rounding of the simulated samples
Verdict(ev) == IF \E k \in 1..(Len(ev.e) - 1) : ev.e[k + 1] > ev.e[k] + Eps THEN "energy_grows"
               ELSE IF \E k \in 1..Len(ev.e) : ev.e[k] < 0 THEN "negative_energy" ELSE "ok"
Init == l = 1
Next == /\ l <= Len(Events)
        /\ (LET v == Verdict(Events[l]) IN v = "ok" \/ PrintT(<<"VERDICT", ToJson([tid |-> Events[l].tid, v |-> v])>>))
        /\ l' = l + 1
Spec == Init /\ [][Next]_l
Accepted == TLCGet("stats").diameter - 1 = Len(Events)
=============================================================================
