------------------------------ MODULE Trace_C18 ------------------------------
(* Trace validation for C18 / C14: every rendered number recorded from the real library is judged by Display!RenderVerdict. *)
EXTENDS Display, Json, IOUtils
Events == JsonDeserialize(IOEnv.TRACE_FILE)
VARIABLE l
Verdict(ev) == IF ev.kind = "angle" THEN AngleVerdict(ev) ELSE RenderVerdict(ev)
Init == l = 1
Next == /\ l <= Len(Events)
        /\ (LET v == Verdict(Events[l]) IN v = "ok" \/ PrintT(<<"VERDICT", ToJson([tid |-> Events[l].tid, v |-> v])>>))
        /\ l' = l + 1
Spec == Init /\ [][Next]_l
Accepted == TLCGet("stats").diameter - 1 = Len(Events)
=============================================================================
