------------------------------ MODULE Trace_C16 ------------------------------
(***************************************************************************)
(* Trace validation for C16 (code -> spec).  Each event records one call   *)
(* of a transformer of Network/transformers.py on the real library: the    *)
(* input network, the keep list and the returned network, projected to the *)
(* specification's abstract networks (integers for nodes / ids, exact      *)
(* rationals).  TLC judges every event with the operators of module Net:   *)
(* is the result one the specification allows, and is it an electrical     *)
(* identity?  One VERDICT line per event names the failing clause.         *)
(***************************************************************************)
EXTENDS Net, Json, IOUtils
Events == JsonDeserialize(IOEnv.TRACE_FILE)
VARIABLE l
SeqOf(x) == [i \in 1..Len(x) |-> x[i]]
Keep(ev) == {ev.keep[i] : i \in DOMAIN ev.keep}

\* the network the contraction step of the operation starts from
PreOf(ev) == IF ev.op = "remove_short_circuit_elements" THEN ev.br
             ELSE IF ev.op = "remove_ideal_voltage_sources" THEN ZeroV(ev.br, Keep(ev))
             ELSE ZeroV(RemoveOpen(ZeroI(ev.br, Keep(ev))), Keep(ev))                \* passive_network
\* the result of an operation without contraction: exactly the wanted branches, matched by identifier (the order of the list is not
\* part of the property)
ExactWhy(want, out) == LET outIds == {out[j].id : j \in DOMAIN out} IN
                       IF Len(want) # Len(out) THEN "branch_count"
                       ELSE IF Cardinality(outIds) # Len(out) \/ outIds # {want[i].id : i \in DOMAIN want} THEN "ids_or_terminals"
                       ELSE IF \E i \in DOMAIN want : LET o == out[OutIdx(out, want[i].id)] IN want[i].n1 # o.n1 \/ want[i].n2 # o.n2 THEN "ids_or_terminals"
                       ELSE IF \E i \in DOMAIN want : ~SameElemE(want[i].e, out[OutIdx(out, want[i].id)].e) THEN "element"
                       ELSE "ok"
DisjointShortsOf(b, K) == \A i, j \in ShortIdx(b, K) : i # j => {b[i].n1, b[i].n2} \cap {b[j].n1, b[j].n2} = {}
Verdict(ev) ==
   IF ev.outref # ev.ref THEN "reference_changed"
   ELSE IF ev.op = "remove_open_circuit_elements" THEN ExactWhy(RemoveOpen(ev.br), ev.out)
   ELSE IF ev.op = "remove_ideal_current_sources" THEN ExactWhy(RemoveOpen(ZeroI(ev.br, Keep(ev))), ev.out)
   ELSE LET pre == PreOf(ev) why == ContractionWhy(pre, ev.ref, Keep(ev), ev.out) IN
        IF why # "ok" THEN why
        ELSE IF DisjointShortsOf(pre, Keep(ev)) /\ \E j \in DOMAIN ev.out : IsShortE(ev.out[j].e) /\ ev.out[j].id \notin Keep(ev) THEN "disjoint_short_survived"
        ELSE \* MC_C16 establishes that the canonical contraction has the solution of 'pre' on all survivors;
             \* the candidate is compared with it (far smaller systems than 'pre' with all its shorts)
             LET can == ContractShorts(pre, ev.ref, Keep(ev)) IN
             IF can = <<>> THEN (IF ev.out = <<>> \/ SolveOpt(ev.out, ev.ref) # <<>> THEN "ok" ELSE "result_not_well_posed")
             ELSE LET sc == SolveOpt(can, ev.ref) IN
             IF sc = <<>> THEN "skipped_illposed"
             ELSE IF ev.out = <<>> THEN "branch_dropped"
             ELSE LET s2 == SolveOpt(ev.out, ev.ref) IN
                  IF s2 = <<>> THEN "result_not_well_posed"
                  ELSE IF \E j \in DOMAIN ev.out :
                          IF \E i \in DOMAIN can : can[i].id = ev.out[j].id
                          THEN LET i == CHOOSE k \in DOMAIN can : can[k].id = ev.out[j].id IN
                               U(ev.out, ev.ref, s2, j) # U(can, ev.ref, sc, i) \/ Flow(ev.out, ev.ref, s2, j) # Flow(can, ev.ref, sc, i)
                          ELSE ~CIsZero(U(ev.out, ev.ref, s2, j))
                       THEN "solution_changed_on_branch"
                  ELSE IF \E n \in Used(ev.out) : LET rep == ClassRep(pre, ev.ref, Keep(ev), n) IN
                          rep \in Used(can) /\ Phi(ev.out, ev.ref, s2, n) # Phi(can, ev.ref, sc, rep)
                       THEN "solution_changed_on_node"
                  ELSE "ok"

Init == l = 1
Next == /\ l <= Len(Events)
        /\ PrintT(<<"VERDICT", ToJson([tid |-> Events[l].tid, v |-> Verdict(Events[l])])>>)
        /\ l' = l + 1
Spec == Init /\ [][Next]_l
Accepted == TLCGet("stats").diameter - 1 = Len(Events)
=============================================================================
