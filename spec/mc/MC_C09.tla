------------------------------- MODULE MC_C09 -------------------------------
(***************************************************************************)
(* C09 - the multi-frequency steady state is the superposition of the      *)
(* single-frequency solutions.  For each circuit with DC, sinusoidal and   *)
(* periodic sources and each w_max the specification lists the analysed    *)
(* frequencies (distinct source frequencies and all harmonics k*w0 <=      *)
(* w_max, k >= 0, each once) and the spectral line at each frequency: the  *)
(* exact peak phasor of NetAt(circuit, w), split into the monomials 1,     *)
(* 1/pi, 1/pi^2 that Fourier harmonics carry (one exact solve each, by     *)
(* linearity).  TLC checks on the model that each monomial's solution      *)
(* satisfies the circuit equations of the network with only that           *)
(* monomial's sources active - hence Kirchhoff's current law holds for the *)
(* sum at every instant.                                                   *)
(***************************************************************************)
EXTENDS CircGen
CONSTANTS WMaxs, Res

ResDefault == Q(1, 1000)
WMaxQuick == {R0, Q(5,2)}
WMaxAll == {R0, R1, Q(3,2), RI(3), Q(7,2)}
WMaxTenth == {Q(1,2), Q(7,20)}
WMaxNear == {RI(5), Q(3,2)}

\* flow / reported current of branch i in the solution s of one monomial network mb, with the sign
\* convention decided by the complete element (a lossy source reports generator direction)
IRepOf(full, mb, r, s, i) == IF IsLinearSrc(full[i].e) THEN CNeg(Flow(mb, r, s, i)) ELSE Flow(mb, r, s, i)
ObsM(full, mb, r, s) ==
  [phi |-> [n \in Used(mb) |-> Phi(mb, r, s, n)],
   u   |-> [i \in DOMAIN mb |-> U(mb, r, s, i)],
   i   |-> [i \in DOMAIN mb |-> IRepOf(full, mb, r, s, i)]]

Line(w) == LET full == NetAt(cs, w, Res) r == RefOf(Listed) IN
   IF SolveOpt(full, r) = <<>> /\ ~(\A i \in DOMAIN full : CIsZero(full[i].e.src)) THEN [w |-> w, ok |-> FALSE]
   ELSE LET ks == PiPowers(full) IN
        [w |-> w, ok |-> \A k \in ks : SolveOpt(Mono(full, k), r) # <<>>,
         parts |-> [k \in ks |-> LET mb == Mono(full, k) s == SolveOpt(mb, r) IN
                       IF s = <<>> THEN [k |-> k] ELSE
                       [k |-> k, x |-> ObsM(full, mb, r, s),
                        thm |-> Assert(IsSolutionVec(mb, r, s), "C09: a monomial part violates the circuit equations")]]]

HasSource == \E i \in DOMAIN cs : cs[i].kind \in SourceKinds
Check == (ShapeC /\ HasSource) =>
   \A wm \in WMaxs :
     LET fl == FreqList(cs, wm, Res)
         lines == [j \in DOMAIN fl |-> Line(fl[j])]
     IN (\A j \in DOMAIN fl : lines[j].ok) =>
        /\ \A j \in DOMAIN fl : \A k \in DOMAIN lines[j].parts : lines[j].parts[k].thm
        /\ PrintT(<<"CASE", ToJson([comps |-> Listed, ref |-> RefOf(Listed), wmax |-> wm, freqs |-> fl,
               lines |-> [j \in DOMAIN fl |-> [w |-> fl[j], parts |-> [k \in DOMAIN lines[j].parts |-> [k |-> k, x |-> lines[j].parts[k].x]]]]])>>)
=============================================================================
