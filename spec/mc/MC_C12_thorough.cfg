SPECIFICATION Spec
CONSTANTS
  MaxB = 4
  MaxN = 3
  Gnds = {9, 1}
  Canon = TRUE
  SymKinds = {"R"}
  Kinds = {"R","C","L","DV","DI"}
  K = 8
INVARIANT CheckT
CHECK_DEADLOCK FALSE
