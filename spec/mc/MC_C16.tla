------------------------------- MODULE MC_C16 -------------------------------
(***************************************************************************)
(* C16 - network simplifications are electrical identities.                *)
(* Scenarios: well-posed networks that contain short and open branches     *)
(* (chains, stars, shorts at the reference, parallel to other elements).   *)
(* For every operation of Network/transformers.py the specification gives  *)
(* the result (or, for the contraction of shorts, the set of allowed        *)
(* results by way of the node classes), and TLC checks on the model that    *)
(* the operation is an electrical identity: the simplified network is well  *)
(* posed and has the same solution on every surviving branch and node.     *)
(***************************************************************************)
EXTENDS NetGen
CONSTANT KeepMode       \* "none": keep = {} only; "single": {} and singletons; "all": every subset

ShortIds == {br[i].id : i \in {j \in DOMAIN br : IsShortE(br[j].e)}}
SrcIds == {br[i].id : i \in Sources(br)}
Exemptable == ShortIds \cup SrcIds
Keeps == IF KeepMode = "none" THEN {{}}
         ELSE IF KeepMode = "few" THEN {{}} \cup {{x} : x \in (IF ShortIds = {} THEN {} ELSE {SetMax(ShortIds)}) \cup (IF SrcIds = {} THEN {} ELSE {SetMin(SrcIds)})}
         ELSE IF KeepMode = "single" THEN {{}} \cup {{x} : x \in Exemptable}
         ELSE SUBSET Exemptable

IdxOf(b, id) == CHOOSE i \in DOMAIN b : b[i].id = id
Obs(b, r, s) ==
  [phi |-> [n \in Used(b) |-> Phi(b, r, s, n)],
   u   |-> [i \in DOMAIN b |-> U(b, r, s, i)],
   i   |-> [i \in DOMAIN b |-> IRep(b, r, s, i)],
   ids |-> [i \in DOMAIN b |-> b[i].id]]
ObsOpt(b, r) == IF ~ValidNet(b, r) THEN [status |-> "invalid"]
                ELSE LET s == SolveOpt(b, r) IN IF s = <<>> THEN [status |-> "illposed"] ELSE [status |-> "ok", x |-> Obs(b, r, s)]

\* same voltages and flows on every surviving branch (matched by id), same potential on
\* every surviving node, where node n of the original is node m[n] of the simplified network
SameOnSurvivors(b2, r2, s2, m, s0) ==
   /\ \A i \in DOMAIN b2 : LET j == IdxOf(br, b2[i].id) IN
         /\ U(b2, r2, s2, i) = U(br, ref, s0, j)
         /\ Flow(b2, r2, s2, i) = Flow(br, ref, s0, j)
   /\ \A n \in Used(br) : m[n] \in Used(b2) => Phi(b2, r2, s2, m[n]) = Phi(br, ref, s0, n)
IdMap == [n \in Used(br) |-> n]

\* remove_ideal_voltage_sources / remove_ideal_current_sources / passive_network as compositions
RmIdealI(b, K) == RemoveOpen(ZeroI(b, K))
RmIdealV(b, r, K) == ContractShorts(ZeroV(b, K), r, K)
PassiveNet(b, r, K) == RmIdealV(RmIdealI(b, K), r, K)
\* pairwise disjoint non-exempt shorts: then the contraction must leave none of them
DisjointShorts(b, K) == \A i, j \in ShortIdx(b, K) : i # j => {b[i].n1, b[i].n2} \cap {b[j].n1, b[j].n2} = {}

Check == (Shape /\ (ShortIds # {} \/ \E i \in DOMAIN br : IsOpenE(br[i].e))) =>
  LET s0 == SolveOpt(br, ref) IN
  s0 # <<>> =>
    LET ro   == RemoveOpen(br)
        sro  == SolveOpt(ro, ref)
        con  == [K \in Keeps |-> ContractShorts(br, ref, K)]
        scon == [K \in Keeps |-> SolveOpt(con[K], ref)]
        cmap == [K \in Keeps |-> [n \in Used(br) |-> ClassRep(br, ref, K, n)]]
        sw   == [g \in Used(br) |-> SolveOpt(br, g)]
    IN
    /\ Assert(sro # <<>> /\ SameOnSurvivors(ro, ref, sro, IdMap, s0), "C16: removing open branches changed the solution")
    /\ Assert(\A K \in Keeps : con[K] = <<>> \/ (scon[K] # <<>> /\ SameOnSurvivors(con[K], ref, scon[K], cmap[K], s0)), "C16: contracting shorts changed the solution")
    /\ Assert(\A K \in Keeps : \A i \in DOMAIN con[K] : ~(IsShortE(con[K][i].e) /\ con[K][i].id \notin K), "C16: a non-exempt short survived the contraction")
    /\ Assert(\A g \in Used(br) : LET sg == sw[g] IN sg # <<>> /\
                 \A n \in Used(br) : Phi(br, g, sg, n) = CSub(Phi(br, ref, s0, n), Phi(br, ref, s0, g)), "C16: switching the reference is not a common shift")
    /\ PrintT(<<"CASE", ToJson([br |-> br, ref |-> ref, expect |-> Obs(br, ref, s0),
          rm_open |-> [net |-> ro, x |-> Obs(ro, ref, sro)],
          rm_elem |-> [id \in Ids(br) |-> [net |-> RemoveId(br, id), res |-> ObsOpt(RemoveId(br, id), ref)]],
          switch  |-> [g \in Used(br) |-> Obs(br, g, sw[g])],
          contract |-> [K \in Keeps |-> [keep |-> K, classes |-> cmap[K], net |-> con[K], x |-> IF con[K] = <<>> THEN [empty |-> TRUE] ELSE Obs(con[K], ref, scon[K]),
                                        disjoint |-> DisjointShorts(br, K)]],
          rm_i |-> [K \in Keeps |-> [keep |-> K, net |-> RmIdealI(br, K), res |-> ObsOpt(RmIdealI(br, K), ref)]],
          rm_v |-> [K \in Keeps |-> [keep |-> K, zeroed |-> ZeroV(br, K),
                                    classes |-> [n \in Used(br) |-> ClassRep(ZeroV(br, K), ref, K, n)],
                                    net |-> RmIdealV(br, ref, K), res |-> ObsOpt(RmIdealV(br, ref, K), ref)]],
          passive |-> [K \in Keeps |-> [keep |-> K, pre |-> ZeroV(RmIdealI(br, K), K),
                                    classes |-> [n \in Used(RmIdealI(br, K)) |-> ClassRep(ZeroV(RmIdealI(br, K), K), ref, K, n)],
                                    net |-> PassiveNet(br, ref, K), res |-> ObsOpt(PassiveNet(br, ref, K), ref)]]
          ])>>)
=============================================================================
