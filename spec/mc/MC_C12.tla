------------------------------- MODULE MC_C12 -------------------------------
(***************************************************************************)
(* C12 - transient simulation solves the circuit's differential equations. *)
(* For the non-degenerate circuits of the generator whose poles are        *)
(* distinct Gaussian rationals the exact first-order-hold response of      *)
(* every state to step / triangle / ramp inputs over K steps is emitted as *)
(* polynomials in p_i = exp(lam_i h) and eta = 1/h, together with the      *)
(* exact output rows C, D for every potential, voltage and current and the *)
(* exact DC gains.  TLC checks that the spectral projectors resolve the    *)
(* identity and reproduce A, the rest start, and - through MC_C10's        *)
(* theorem - that the state-space model is the circuit.                    *)
(***************************************************************************)
EXTENDS CircGen, Transient

CheckT == (ShapeC /\ InSSDomain(cs)) =>
  LET ref == RefOf(Listed) IN
  (NS(cs) <= 2 /\ NonDegenerate(cs, ref)) =>
    LET n == NS(cs) m == NU(cs)
        A == Amat(cs, ref)
        B == Bmat(cs, ref)
        lam == Poles(A, n)
        outs == Outputs(cs)
        nodes == {o[2] : o \in {x \in outs : x[1] = "phi"}}
    IN lam # <<>> =>
       LET run == Run(A, B, n, m, lam) IN
       /\ Assert(ProjectorsOK(A, n, lam), "C12: spectral projectors do not reproduce A")
       /\ Assert(\A i \in 1..Len(lam) : \A r \in 1..n : run[i][1][r] = PZero, "C12: rest start")
       /\ Assert(\A i \in 1..Len(lam) : RSign(CRe(lam[i])) <= 0, "C11: a pole in the open right half plane")
       /\ PrintT(<<"CASE", ToJson([comps |-> Listed, ref |-> ref, K |-> K,
             states |-> [r \in 1..n |-> cs[StateAt(cs, r)].id], sources |-> [q \in 1..m |-> cs[SrcAt(cs, q)].id],
             A |-> [r \in 1..n |-> [k \in 1..n |-> A[r][k][1]]],
             poles |-> lam,
             u |-> [k \in 0..K |-> [q \in 1..m |-> UWave(k, q)[1]]],
             run |-> [i \in 1..Len(lam) |-> [k \in 1..(K + 1) |-> [r \in 1..n |-> [d \in 0..K |-> run[i][k][r][d]]]]],
             crow |-> [phi |-> [nn \in nodes |-> <<nn, Crow(cs, ref, <<"phi", nn>>), Drow(cs, ref, <<"phi", nn>>)>>],
                       u |-> [j \in DOMAIN cs |-> <<Crow(cs, ref, <<"u", j>>), Drow(cs, ref, <<"u", j>>)>>],
                       i |-> [j \in DOMAIN cs |-> <<Crow(cs, ref, <<"i", j>>), Drow(cs, ref, <<"i", j>>)>>]],
             dc |-> IF PhasorOK(cs, ref, R0) THEN [q \in 1..m |->
                       [phi |-> [nn \in nodes |-> <<nn, Phasor(cs, ref, R0, q, <<"phi", nn>>)>>],
                        u |-> [j \in DOMAIN cs |-> Phasor(cs, ref, R0, q, <<"u", j>>)],
                        i |-> [j \in DOMAIN cs |-> Phasor(cs, ref, R0, q, <<"i", j>>)]]] ELSE <<>>])>>)
=============================================================================
