SPECIFICATION Spec
CONSTANTS
  MaxLen = 14
  Randomised = TRUE
INVARIANT Repeatable
INVARIANT Emit
PROPERTY ArgumentsUnchanged
CHECK_DEADLOCK FALSE
