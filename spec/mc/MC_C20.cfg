SPECIFICATION Spec
CONSTANTS
  MaxLen = 14
INVARIANT Repeatable
INVARIANT Emit
PROPERTY ArgumentsUnchanged
CHECK_DEADLOCK FALSE
