SPECIFICATION Spec
CONSTANTS
  MaxB = 3
  MaxN = 3
  Gnds = {9}
  Canon = TRUE
  SymKinds = {"R"}
  Kinds = {"R","PV10","AV03"}
  WMaxs <- WMaxTenth
  Res <- ResDefault
INVARIANT Check
CHECK_DEADLOCK FALSE
