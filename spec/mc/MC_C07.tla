------------------------------- MODULE MC_C07 -------------------------------
(***************************************************************************)
(* C07 - every component becomes exactly one faithful network branch.      *)
(* Scenario: a circuit of three listed items - the component under test at *)
(* every position among filler resistors, with or without a ground         *)
(* component at either end of the list - transformed at angular frequency  *)
(* w with resolution res.  Every constructor of components.py, parameter   *)
(* values including 0, own / other / near-resolution frequencies, harmonic *)
(* and off-harmonic frequencies of periodic sources.                       *)
(* The expected network is NetAt (module Circuit).                         *)
(***************************************************************************)
EXTENDS Circuit, Json
CONSTANT Tier
VARIABLES comp, w, res, pos, gnd
vars == <<comp, w, res, pos, gnd>>

Units == { C1, CJ1, <<Q(3,5), Q(4,5)>>, <<Q(5,13), Q(-12,13)>> }     \* exp(j phi) on the rational circle
Ress == { Q(1,1000), Q(1,10) }
Pos2 == {R0, Q(2,1), Q(1,3)}            \* non-negative parameter values including 0
Amp == {Q(2,1), Q(-3,2)}
SrcW == {R0, R1, Q(2,1), Q(1000,1)}          \* incl. a high frequency: the resolution is an absolute distance, not a relative one
PerW == {R1, Q(1,2), Q(1,10), Q(7,10)}          \* incl. fundamentals that are not binary-exact (n * w0 / w0 is then not exactly n in binary64)
WaveSet == IF Tier = "quick" THEN {"rect", "saw", "cos"} ELSE Waves

Passive ==
      {Comp("resistor", 7, 1, 2, [R |-> x]) : x \in Pos2}
 \cup {Comp("conductance", 7, 1, 2, [G |-> x]) : x \in Pos2}
 \cup {Comp("impedance", 7, 1, 2, [R |-> x, X |-> y]) : x \in {R0, Q(2,1)}, y \in {Q(-1,2), R0, Q(3,1)}}
 \cup {Comp("admittance", 7, 1, 2, [G |-> x, B |-> y]) : x \in {R0, Q(1,2)}, y \in {Q(-1,3), R0, Q(2,1)}}
 \cup {Comp("capacitor", 7, 1, 2, [C |-> x]) : x \in Pos2}
 \cup {Comp("inductance", 7, 1, 2, [L |-> x]) : x \in Pos2}
 \cup {Comp(k, 7, 1, 2, [P |-> p, V_ref |-> Q(3,1)]) : k \in {"lamp", "resistive_load"}, p \in {R0, Q(5,1)}}
 \cup {Comp("short_circuit", 7, 1, 2, [x |-> 0])}
Sources ==
      {Comp("dc_voltage_source", 7, 1, 2, [V |-> a, R |-> r]) : a \in Amp, r \in {R0, Q(2,1)}}
 \cup {Comp("dc_current_source", 7, 1, 2, [I |-> a, G |-> r]) : a \in Amp, r \in {R0, Q(1,2)}}
 \cup {Comp("ac_voltage_source", 7, 1, 2, [V |-> a, R |-> r, w |-> ws, u |-> u]) : a \in Amp, r \in {R0, Q(2,1)}, ws \in SrcW, u \in Units}
 \cup {Comp("ac_current_source", 7, 1, 2, [I |-> a, G |-> r, w |-> ws, u |-> u]) : a \in Amp, r \in {R0, Q(1,2)}, ws \in SrcW, u \in Units}
 \cup {Comp("complex_voltage_source", 7, 1, 2, [V |-> <<Q(2,1), Q(-1,1)>>, Z |-> z]) : z \in {C0, <<Q(1,1), Q(1,2)>>}}
 \cup {Comp("complex_current_source", 7, 1, 2, [I |-> <<Q(1,2), Q(3,1)>>, Y |-> y]) : y \in {C0, <<Q(1,3), Q(-1,1)>>}}
Periodic ==
      {Comp("periodic_voltage_source", 7, 1, 2, [wave |-> wv, V |-> a, w |-> w0, u |-> u, R |-> r]) :
             wv \in WaveSet, a \in Amp, w0 \in PerW, u \in Units, r \in {R0, Q(2,1)}}
 \cup {Comp("periodic_current_source", 7, 1, 2, [wave |-> wv, I |-> a, w |-> w0, u |-> u, G |-> r]) :
             wv \in WaveSet, a \in Amp, w0 \in PerW, u \in Units, r \in {R0, Q(1,2)}}

\* analysis frequencies: 0, source frequencies, harmonics, just inside / outside the resolution (never on the edge)
WsFor(c, r) ==
   LET base == {R0, R1, Q(2,1), Q(1,2), Q(10,1)}
       near(x) == {RAdd(x, RMul(Q(1,2), r)), RSub(x, RMul(Q(1,2), r)), RAdd(x, RMul(Q(2,1), r)), RSub(x, RMul(Q(2,1), r))}
   IN IF c.kind \in {"ac_voltage_source", "ac_current_source"} THEN {x \in base \cup near(c.v.w) : RLe(R0, x)}
      ELSE IF c.kind \in {"dc_voltage_source", "dc_current_source"} THEN {x \in base \cup near(R0) : RLe(R0, x)}
      ELSE IF c.kind \in {"periodic_voltage_source", "periodic_current_source"}
           THEN {RMul(RI(n), c.v.w) : n \in 0..5} \cup {RAdd(RMul(RI(n), c.v.w), RMul(Q(1,2), r)) : n \in {1, 3}}
                \cup {RAdd(RMul(RI(n), c.v.w), RMul(Q(2,1), r)) : n \in {0, 2}}
                \cup (IF c.v.w \in {R1, Q(1,2)} THEN {Q(1,4), Q(7,4)} ELSE {RMul(Q(1,4), c.v.w), RMul(Q(7,4), c.v.w)})      \* off every harmonic
      ELSE {R0, R1, Q(1,2), Q(10,1)}

\* two steps, so that TLC's workers share the enumeration: pick the component, then the rest
Init == /\ comp \in Passive \cup Sources \cup Periodic
        /\ res = R0 /\ w = R0 /\ pos = 0 /\ gnd = 0
Next == /\ pos = 0
        /\ res' \in Ress
        \* (harmonics are only distinguishable when the resolution is finer than a quarter of the fundamental)
        /\ (comp.kind \in {"periodic_voltage_source", "periodic_current_source"} => RLt(RMul(RI(4), res'), comp.v.w))
        /\ w' \in WsFor(comp, res')
        /\ pos' \in 1..3
        /\ gnd' \in {0, 1, 4}           \* 0: no ground component; 1: ground listed first; 4: ground listed last
        /\ UNCHANGED comp
Spec == Init /\ [][Next]_vars

Filler(k) == Comp("resistor", k, IF k = 1 THEN 3 ELSE 2, IF k = 1 THEN 1 ELSE 0, [R |-> RI(k + 3)])
Listed == LET core == [k \in 1..3 |-> IF k = pos THEN comp ELSE Filler(k)] IN
          IF gnd = 0 THEN core ELSE IF gnd = 1 THEN <<Ground(9, 0)>> \o core ELSE core \o <<Ground(9, 2)>>

Net == NetAt(Listed, w, res)
Check == pos # 0 =>
  /\ Assert(ValidCircuit(Listed), "the scenario must be a valid circuit")
  /\ Assert(Len(Net) = 3 /\ \A k \in 1..3 : Net[k].id = (IF k = pos THEN 7 ELSE k), "C07: one branch per non-ground component, same order")
  /\ PrintT(<<"CASE", ToJson([comps |-> Listed, w |-> w, res |-> res, pos |-> pos, net |-> Net, ref |-> RefOf(Listed)])>>)
=============================================================================
