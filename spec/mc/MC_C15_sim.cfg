SPECIFICATION Spec
CONSTANTS
  MaxEntries = 6
  WireWeight = 8
  WithAC = FALSE
  Randomised = TRUE
  Types = {"R", "G", "Z", "C", "L", "lamp", "lline", "V", "I", "ACV", "ACI", "CV", "CI"}
INVARIANT Check
CHECK_DEADLOCK FALSE
