------------------------------- MODULE MC_C15 -------------------------------
(***************************************************************************)
(* C15, declarative descriptions: an element list (type, values,           *)
(* direction, length, place-after) denotes a drawing program:              *)
(*   - an element starts at the end of the element named by place_after,   *)
(*     else at the end of the previously listed element (the drawing       *)
(*     cursor), and extends length * unit in its direction;                *)
(*   - grounds and nodes sit on their start point and leave the cursor     *)
(*     there.                                                              *)
(* Points are integer pairs encoded as 100*(y+50) + (x+50).  The netlist   *)
(* of the resulting program is Drawing!Netlist.                            *)
(***************************************************************************)
EXTENDS Drawing, Json
CONSTANTS MaxEntries, Types, WireWeight, Randomised, WithAC
VARIABLES ents
vars == <<ents>>

Enc(x, y) == 100 * (y + 50) + (x + 50)
DX(d) == IF d = "right" THEN 1 ELSE IF d = "left" THEN -1 ELSE 0
DY(d) == IF d = "up" THEN 1 ELSE IF d = "down" THEN -1 ELSE 0
PX(p) == (p % 100) - 50
PY(p) == (p \div 100) - 50
Dirs == {"right", "left", "up", "down"}
OnePoint == {"gnd", "label"}

RECURSIVE EndOf(_,_)
\* start and end point of entry i
StartOf(e, i) == IF e[i].after # 0 THEN EndOf(e, e[i].after) ELSE IF i = 1 THEN Enc(0, 0) ELSE EndOf(e, i - 1)
EndOf(e, i) == IF e[i].k \in OnePoint THEN StartOf(e, i)
               ELSE LET s == StartOf(e, i) IN Enc(PX(s) + e[i].len * DX(e[i].dir), PY(s) + e[i].len * DY(e[i].dir))
Program(e) == [i \in DOMAIN e |-> Item(e[i].k, StartOf(e, i), EndOf(e, i), e[i].rev, FALSE)]

Named(i) == ents[i].k \notin {"wire", "gnd", "label"}
Init == ents = <<>>
Afters == {0} \cup {i \in DOMAIN ents : Named(i)}
CandE ==
        {[k |-> k, dir |-> d, len |-> ln, after |-> af, rev |-> FALSE] : k \in Types \ SourceSyms, d \in Dirs, ln \in {1, 2}, af \in Afters}
   \cup {[k |-> k, dir |-> d, len |-> ln, after |-> af, rev |-> rev] : k \in Types \cap SourceSyms, d \in Dirs, ln \in {1, 2}, af \in Afters, rev \in BOOLEAN}
   \cup {[k |-> "wire", dir |-> d, len |-> ln, after |-> af, rev |-> FALSE, t |-> t] : d \in Dirs, ln \in {1, 2}, af \in Afters, t \in 1..WireWeight}
   \cup (IF ents = <<>> THEN {} ELSE
         {[k |-> k, dir |-> "right", len |-> 0, after |-> af, rev |-> FALSE, t |-> t] :
               k \in (IF \E i \in DOMAIN ents : ents[i].k = "gnd" THEN {"label"} ELSE OnePoint), af \in Afters, t \in 1..(8 * WireWeight)})
AddE == /\ Len(ents) < MaxEntries
        /\ IF Randomised THEN ents' = Append(ents, RandomElement(CandE)) ELSE \E e \in CandE : ents' = Append(ents, e)
Next == AddE
Spec == Init /\ [][Next]_vars

Prog == Program(ents)
Check == (Len(ents) >= 3 /\ CompIdx(Prog) # {}) =>
   LET nl == Netlist(Prog)
       ref == RefClass(Prog)
       net == DrawNet(Prog, R0, Q(1, 1000))
       sl == IF ref \in Used(net) THEN SolveOpt(net, ref) ELSE <<>>
   IN
   PrintT(<<"CASE", ToJson([ents |-> ents, prog |-> Prog, netlist |-> nl, gnd |-> IF HasGnd(Prog) THEN GndClass(Prog) ELSE -1,
          ref |-> RefClass(Prog), labels |-> Labels(Prog),
          dc |-> IF sl = <<>> THEN [ok |-> FALSE] ELSE [ok |-> TRUE, phi |-> [n \in Used(net) |-> Phi(net, ref, sl, n)],
                    u |-> [j \in DOMAIN net |-> U(net, ref, sl, j)], i |-> [j \in DOMAIN net |-> IRep(net, ref, sl, j)]],
          ac |-> IF ~WithAC THEN [ok |-> FALSE] ELSE
                 LET neta == DrawNet(Prog, RI(2), Q(1, 1000))
                     sa == IF ref \in Used(neta) THEN SolveOpt(neta, ref) ELSE <<>>
                 IN IF sa = <<>> THEN [ok |-> FALSE] ELSE [ok |-> TRUE, phi |-> [n \in Used(neta) |-> Phi(neta, ref, sa, n)],
                        u |-> [j \in DOMAIN neta |-> U(neta, ref, sa, j)], i |-> [j \in DOMAIN neta |-> IRep(neta, ref, sa, j)]]])>>)
=============================================================================
