SPECIFICATION Spec
CONSTANTS
  MaxB = 4
  MaxN = 3
  Gnds = {9}
  Canon = TRUE
  SymKinds = {"R", "DV", "DI", "C"}
  Kinds = {"R","C","L","DV","DI"}
  K = 5
INVARIANT CheckT
CHECK_DEADLOCK FALSE
