------------------------------- MODULE MC_C06c -------------------------------
(***************************************************************************)
(* C06 at the level of component circuits: the driving-point impedance     *)
(* between two nodes / seen by a component over a sweep of angular         *)
(* frequencies is PortZ of the network NetAt(circuit, w) - it follows jwL  *)
(* and 1/(jwC).  The designed kinds La (L = 1) and Cb (C = 1) are in exact *)
(* series or parallel resonance at w = 1 (admittances that cancel          *)
(* exactly).                                                               *)
(***************************************************************************)
EXTENDS CircGen
CONSTANTS Ws
WsSweep == {R0, Q(1,2), R1, RI(2)}
Res0 == Q(1, 1000)
ZOpt(bb, a, b) == IF a = b THEN [d |-> TRUE, z |-> C0]
                  ELSE IF ~PortConnected(bb, a, b) THEN [d |-> FALSE]
                  ELSE LET pn == PortNet(bb, a, b) s == SolveOpt(pn, b) IN IF s = <<>> THEN [d |-> FALSE] ELSE [d |-> TRUE, z |-> Phi(pn, b, s, a)]
Pairs == {p \in UsedC \X UsedC : p[1] < p[2]}
Check == ShapeC =>
   PrintT(<<"CASE", ToJson([comps |-> Listed,
        sweep |-> [w \in Ws |-> LET net == NetAt(cs, w, Res0) IN
             [w |-> w,
              z  |-> [p \in Pairs |-> [a |-> p[1], b |-> p[2], r |-> ZOpt(net, p[1], p[2]), rba |-> ZOpt(net, p[2], p[1])]],
              ez |-> [i \in DOMAIN cs |-> ZOpt(ElemPortBr(net, i), net[i].n1, net[i].n2)]]]])>>)
=============================================================================
