------------------------------- MODULE MC_C04 -------------------------------
(***************************************************************************)
(* C04 - linearity and superposition.                                      *)
(* On every well-posed network of the bounded generator with at least one  *)
(* source TLC checks                                                       *)
(*   - scaling all sources by a complex factor scales the solution,        *)
(*   - the solution is the sum of the solutions with each source alone,    *)
(*     the others being deactivated exactly as the library's               *)
(*     short_circuitify_voltage_sources / open_circuitify_current_sources  *)
(*     do it (operators ZeroV / ZeroI of module Net, with a keep list),    *)
(*   - with every source deactivated the solution is zero,                 *)
(* and emits the zeroed networks and their exact solutions for replay.     *)
(***************************************************************************)
EXTENDS NetGen

ScaleNet(b, a) == [i \in DOMAIN b |-> SetElem(b[i], [b[i].e EXCEPT !.src = CMul(a, @)])]
Only(b, S) == ZeroI(ZeroV(b, S), S)            \* S: set of branch ids that stay active
Factors == { CI(-1), <<Q(1,2), R1>> }
SrcIds == {br[i].id : i \in Sources(br)}

CONSTANT AllSubsets      \* TRUE: every subset of the sources is kept in turn; FALSE: {}, singletons, all
VecScale(a, v) == [k \in DOMAIN v |-> CMul(a, v[k])]
VecAdd(v, w) == [k \in DOMAIN v |-> CAdd(v[k], w[k])]
Keeps == IF AllSubsets THEN SUBSET SrcIds ELSE {{}} \cup {{x} : x \in SrcIds} \cup {SrcIds}

Obs(b, r, s) ==
  [phi |-> [n \in Used(b) |-> Phi(b, r, s, n)],
   u   |-> [i \in DOMAIN b |-> U(b, r, s, i)],
   i   |-> [i \in DOMAIN b |-> IRep(b, r, s, i)],
   p   |-> [i \in DOMAIN b |-> Pow(b, r, s, i)]]

\* everything in one pass; Assert names the violated clause
Check == (Shape /\ SrcIds # {}) =>
  LET s0 == SolveOpt(br, ref) IN
  s0 # <<>> =>
    LET n    == Dim(br, ref)
        nets == [S \in Keeps |-> Only(br, S)]
        sols == [S \in Keeps |-> SolveOpt(nets[S], ref)]
        RECURSIVE Sum(_)
        Sum(S) == IF S = {} THEN [k \in 1..n |-> C0] ELSE LET x == CHOOSE y \in S : TRUE IN VecAdd(sols[{x}], Sum(S \ {x}))
    IN
    /\ Assert(\A S \in Keeps : MNA(nets[S], ref) = MNA(br, ref), "C04: deactivating sources changed the coefficient matrix")
    /\ Assert(\A S \in Keeps : sols[S] # <<>>, "C04: a network with deactivated sources is not well posed")
    /\ Assert(sols[SrcIds] = s0, "C04: keeping every source changed the solution")
    /\ Assert(\A k \in 1..n : CIsZero(sols[{}][k]), "C04_AllZero: all sources deactivated but the solution is not zero")
    /\ Assert(\A S \in Keeps : sols[S] = Sum(S), "C04_Superposition: the response is not the sum of the single-source responses")
    /\ Assert(\A a \in Factors : SolveOpt(ScaleNet(br, a), ref) = VecScale(a, s0), "C04_Scaling: scaling the sources does not scale the solution")
    /\ PrintT(<<"CASE", ToJson([br |-> br, ref |-> ref, expect |-> Obs(br, ref, s0),
            subsets |-> [S \in Keeps |-> [keep |-> S, net |-> nets[S], expect |-> Obs(nets[S], ref, sols[S]),
                         \* each operation on its own (same coefficient matrix, so well posed)
                         zv |-> ZeroV(br, S), zvx |-> Obs(ZeroV(br, S), ref, SolveOpt(ZeroV(br, S), ref)),
                         zi |-> ZeroI(br, S), zix |-> Obs(ZeroI(br, S), ref, SolveOpt(ZeroI(br, S), ref))]]])>>)
=============================================================================
