------------------------------- MODULE MC_C19 -------------------------------
(***************************************************************************)
(* C19 - malformed circuits are rejected, not reinterpreted.               *)
(* A scenario is a concrete (abstract) description - a network, a circuit, *)
(* a component, a load element, a network / circuit description document,  *)
(* a declarative schematic list, a waveform name - possibly with one       *)
(* injected fault at some position.  Whether it must be accepted is NOT    *)
(* read off the injected fault: it is decided by the specification's       *)
(* validity predicates (ValidNet, ValidCircuit, ValidComp, ValidLoad,      *)
(* ValidNetDoc, ...) evaluated on the description.                         *)
(***************************************************************************)
EXTENDS Docs, Json
VARIABLES sc
vars == <<sc>>

Three == 1..3
\* ---- networks: three branches, any id pattern (duplicates), any reference incl. an unused node
NetOf(idf, ref) == [fam |-> "network", ref |-> ref,
     br |-> << Br(idf[1], 0, 1, EVoltageSource(CI(2), C0)), Br(idf[2], 1, 2, EResistor(CI(3))), Br(idf[3], 2, 0, EResistor(CI(5))) >>]
Networks == {NetOf(idf, ref) : idf \in [Three -> Three], ref \in {0, 1, 2, 5}}
\* ---- circuits: three components with any id pattern and 0..2 ground components at any positions
CoreComps(idf) == << Comp("dc_voltage_source", idf[1], 0, 1, [V |-> RI(2), R |-> R0]), Comp("resistor", idf[2], 1, 2, [R |-> RI(3)]), Comp("capacitor", idf[3], 2, 0, [C |-> RI(1)]) >>
InsertAt(s, p, x) == SubSeq(s, 1, p - 1) \o <<x>> \o SubSeq(s, p, Len(s))
Circuits == {[fam |-> "circuit", comps |-> CoreComps(idf)] : idf \in [Three -> Three]}
       \cup {[fam |-> "circuit", comps |-> InsertAt(CoreComps([i \in Three |-> i]), p, Ground(8, 0))] : p \in 1..4}
       \cup {[fam |-> "circuit", comps |-> InsertAt(InsertAt(CoreComps([i \in Three |-> i]), p, Ground(8, 0)), q, Ground(9, g))] : p \in 1..4, q \in 1..5, g \in {0, 1}}
       \cup {[fam |-> "circuit", comps |-> InsertAt(CoreComps([i \in Three |-> i]), p, Ground(2, 0))] : p \in 1..4}      \* ground sharing an id
\* ---- components: every sign-checked parameter in {-1, 0, 2}
Sg == {RI(-1), R0, RI(2)}
Components ==
      {Comp("resistor", 7, 1, 2, [R |-> x]) : x \in Sg} \cup {Comp("conductance", 7, 1, 2, [G |-> x]) : x \in Sg}
 \cup {Comp("capacitor", 7, 1, 2, [C |-> x]) : x \in Sg} \cup {Comp("inductance", 7, 1, 2, [L |-> x]) : x \in Sg}
 \cup {Comp(k, 7, 1, 2, [P |-> x, V_ref |-> y]) : k \in {"lamp", "resistive_load"}, x \in Sg, y \in Sg}
 \cup {Comp("dc_voltage_source", 7, 1, 2, [V |-> RI(-3), R |-> x]) : x \in Sg}
 \cup {Comp("dc_current_source", 7, 1, 2, [I |-> RI(-3), G |-> x]) : x \in Sg}
 \cup {Comp("ac_voltage_source", 7, 1, 2, [V |-> RI(-3), R |-> x, w |-> y, u |-> CJ1]) : x \in Sg, y \in Sg}
 \cup {Comp("ac_current_source", 7, 1, 2, [I |-> RI(-3), G |-> x, w |-> y, u |-> CJ1]) : x \in Sg, y \in Sg}
 \cup {Comp("periodic_voltage_source", 7, 1, 2, [wave |-> wv, V |-> RI(-3), w |-> y, u |-> CJ1, R |-> x]) : x \in Sg, y \in Sg, wv \in {"rect", "saw", "nowave"}}
 \cup {Comp("periodic_current_source", 7, 1, 2, [wave |-> wv, I |-> RI(-3), w |-> y, u |-> CJ1, G |-> x]) : x \in Sg, y \in Sg, wv \in {"tri", "sin", "nowave"}}
 \cup {Comp("impedance", 7, 1, 2, [R |-> x, X |-> RI(-2)]) : x \in Sg}
\* ---- the load element of Network/elements.py: exactly one of V_ref, I_ref must be positive
Loads == {[fam |-> "load", P |-> RI(4), V_ref |-> a, I_ref |-> b] : a \in Sg, b \in Sg}
ValidLoad(l) == (RSign(l.V_ref) > 0 /\ RSign(l.I_ref) <= 0) \/ (RSign(l.I_ref) > 0 /\ RSign(l.V_ref) <= 0)
\* ---- network description documents: entries with a set of present keys and a type name
NetEntryKeys(k) == {"id", "type", "N1", "N2"} \cup {NetFields(k)[j] : j \in DOMAIN NetFields(k)}
Required(k) == {"id", "type", "N1", "N2"} \cup (IF NetFields(k) = <<>> THEN {} ELSE {NetFields(k)[1]})
                 \cup (IF k \in {"linear_current_source", "linear_voltage_source"} THEN {NetFields(k)[2]} ELSE {})
GoodEntry(k, id) == [type |-> k, id |-> id, keys |-> NetEntryKeys(k)]
DocKinds == <<"resistor", "linear_voltage_source", "real_current_source">>
NetDocs == {[fam |-> "netdoc", doc |-> [j \in Three |-> IF j = p THEN e ELSE GoodEntry(DocKinds[j], j)]] :
              p \in Three, e \in {GoodEntry(k, 7) : k \in NetKinds}
                              \cup {[type |-> "varistor", id |-> 7, keys |-> {"id", "type", "N1", "N2", "R"}]}
                              \cup UNION {{[type |-> k, id |-> 7, keys |-> NetEntryKeys(k) \ {m}] : m \in NetEntryKeys(k)} : k \in {"resistor", "linear_voltage_source", "real_current_source", "short_circuit", "impedance"}}}
ValidNetEntry(en) == en.type \in NetKinds /\ Required(en.type) \subseteq en.keys
ValidNetDoc(doc) == \A j \in DOMAIN doc : ValidNetEntry(doc[j])
\* ---- circuit description documents
CircEntryKeys == {"id", "type", "nodes", "value"}
CircDocs == {[fam |-> "circdoc", pos |-> p, type |-> t, keys |-> ks, valuekeys |-> vk, R |-> x] :
              p \in Three, t \in {"resistor", "thyristor"}, ks \in {CircEntryKeys} \cup {CircEntryKeys \ {m} : m \in CircEntryKeys},
              vk \in {"ok", "wrong", "missing"}, x \in {RI(2), RI(-1)}}
ValidCircDoc(d) == d.type = "resistor" /\ d.keys = CircEntryKeys /\ d.valuekeys = "ok" /\ RSign(d.R) >= 0
\* ---- declarative schematic element lists
Schematics == {[fam |-> "schematic", pos |-> p, fault |-> f] : p \in Three, f \in {"none", "unknown_type", "missing_type", "missing_argument"}}
\* ---- waveform names
WaveNames == {[fam |-> "waveform", name |-> n] : n \in Waves \cup {"nowave", "RECT", ""}}

\* ---- queries on solution objects: an identifier is either one of the description's or unknown
Queries == {[fam |-> "query", sol |-> s, q |-> q, known |-> b] :
              s \in {"network", "dc", "complex", "time_domain", "frequency_domain", "transient"}, q \in {"potential", "voltage", "current", "power"}, b \in BOOLEAN}

Init == sc \in Queries \cup Networks \cup Circuits \cup {[fam |-> "component", comp |-> c] : c \in Components} \cup Loads \cup NetDocs \cup CircDocs \cup Schematics \cup WaveNames
Next == UNCHANGED vars
Spec == Init /\ [][Next]_vars

Accept ==
  CASE sc.fam = "network"   -> ValidNet(sc.br, sc.ref)
    [] sc.fam = "circuit"   -> ValidCircuit(sc.comps)
    [] sc.fam = "component" -> ValidComp(sc.comp)
    [] sc.fam = "load"      -> ValidLoad(sc)
    [] sc.fam = "netdoc"    -> ValidNetDoc(sc.doc)
    [] sc.fam = "circdoc"   -> ValidCircDoc(sc)
    [] sc.fam = "schematic" -> sc.fault = "none"
    [] sc.fam = "waveform"  -> sc.name \in Waves
    [] sc.fam = "query"     -> sc.known
\* both outcomes occur in every family (the model is not vacuous) - checked by the harness through tags
Emit == PrintT(<<"CASE", ToJson([sc |-> sc, accept |-> Accept])>>)
=============================================================================
