SPECIFICATION Spec
CONSTANTS
  MaxB = 3
  MaxN = 3
  Refs = {0}
  SymKinds = {}
  DoPorts = FALSE
  ValTab <- ValsPrime
  Canon = TRUE
  Kinds = {"R","Y","V","VL","I","IL"}
INVARIANT Check
CHECK_DEADLOCK FALSE
