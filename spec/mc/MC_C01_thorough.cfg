SPECIFICATION Spec
CONSTANTS
  MaxB = 3
  MaxN = 3
  ValTab <- ValsPrime
  Canon = TRUE
  Kinds = {"R","G","Z","Y","LV","LI","V","VL","I","IL","S","O"}
INVARIANT C01_Kirchhoff
INVARIANT C05_Tellegen
INVARIANT Emit
CHECK_DEADLOCK FALSE
