SPECIFICATION Spec
CONSTANTS
  MaxB = 3
  MaxN = 3
  ValTab <- ValsPrime
  Refs = {0, 1, 2, 3, 4}
  SymKinds = {}
  Canon = TRUE
  Kinds = {"R","G","Z","Y","LV","LI","V","VL","I","IL","S","O"}
INVARIANT Check
CHECK_DEADLOCK FALSE
