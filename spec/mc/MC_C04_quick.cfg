SPECIFICATION Spec
CONSTANTS
  MaxB = 3
  MaxN = 3
  AllSubsets = FALSE
  Refs = {0, 1}
  SymKinds = {}
  Canon = TRUE
  ValTab <- ValsPrime
  Kinds = {"R","V","VL","I","IL"}
INVARIANT Check
CHECK_DEADLOCK FALSE
