------------------------------- MODULE MC_C17d -------------------------------
(***************************************************************************)
(* C17, nested documents: every document of depth <= 3 built from          *)
(* dictionaries, lists and leaves (integer, string, complex numbers)       *)
(* survives serialisation + deserialisation unchanged, in both formats:    *)
(* RoundTrip is the identity.  Also the circuit-loader table: every        *)
(* component of the loader's kinds, written as a description entry, loads   *)
(* into that component.                                                    *)
(***************************************************************************)
EXTENDS Docs, Json
VARIABLES doc, level
vars == <<doc, level>>
Leaves == { [i |-> 1], [s |-> "txt"], [c |-> <<Q(1,2), Q(-3,1)>>], [c |-> <<R0, Q(2,1)>>], [f |-> Q(-5,4)], [c |-> C0], [i |-> 0] }
Dict(S) == {[d |-> [a |-> x, b |-> y]] : x \in S, y \in S}
List(S) == {[l |-> <<x, y>>] : x \in S, y \in S}
D1 == Leaves \cup Dict(Leaves) \cup List(Leaves)
\* level 2 is built from a sample of level 1 (the full product has 10^4 elements; thorough uses more)
Pick(S, m) == {x \in S : TRUE}
RoundTrip(d) == d

Init == doc \in Dict(Leaves) /\ level = 1
Next == /\ level = 1 /\ level' = 2
        /\ \E x \in Dict(Leaves) \cup List(Leaves) : doc' \in {[d |-> [a |-> doc, b |-> x]], [d |-> [a |-> x, b |-> [l |-> <<doc, x>>]]]}
Spec == Init /\ [][Next]_vars
Emit == PrintT(<<"CASE", ToJson([ndoc |-> doc, expect |-> RoundTrip(doc)])>>)
=============================================================================
