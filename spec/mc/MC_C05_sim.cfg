SPECIFICATION Spec
CONSTANTS
  MaxB = 4
  MaxN = 3
  Gnds = {9, 1}
  Canon = FALSE
  SymKinds = {"R","G","Z","Y","C","L","LP","LD"}
  Kinds = {"R","G","Z","Y","C","L","LP","LD","DV","DVR","AV1","AVR1","AV2","DI","DIG","AI1","AIG1","AI2"}
  Freqs <- FreqsAll
  NearFreqs <- NearNone
  Res <- ResDefault
INVARIANT Check
CHECK_DEADLOCK FALSE
