------------------------------- MODULE MC_C02 -------------------------------
(***************************************************************************)
(* C02 - DC / AC phasor analysis of component circuits is exact at every   *)
(* frequency; C05 - powers.  For each circuit of the bounded generator and *)
(* each analysis frequency TLC solves the network NetAt(circuit, w, res)   *)
(* exactly and checks on the model: the circuit equations, at w = 0 every  *)
(* capacitor carries no current and every inductor no voltage, a source at *)
(* another frequency contributes nothing, element powers have the right    *)
(* sign and sum to zero.                                                   *)
(***************************************************************************)
EXTENDS CircGen
CONSTANTS Freqs, NearFreqs, Res

ResDefault == Q(1, 1000)       \* the resolution ComplexSolution / DCSolution use (not a parameter there)
FreqsQuick == {R0, R1, RI(2), Q(1,2)}
NearNone == {}
FreqsSmall == {R0, R1}
NearQuick == {Q(2001, 2000), Q(501, 500)}
NearAll == {Q(2001, 2000), Q(1999, 2000), Q(501, 500), Q(499, 500), Q(4001, 2000), Q(1001, 500), Q(1, 2000), Q(1, 500)}
FreqsAll == {R0, R1, RI(2), Q(1,2), RI(10)}
\* around a source at 1000 rad/s: the resolution is an absolute distance (1/1000 rad/s), so 2/1000 away is already "another frequency"
FreqsHigh == {R0, RI(1000)}
NearHigh == {Q(500001, 500), Q(499999, 500), Q(2000001, 2000), Q(1999999, 2000), Q(100001, 100), Q(99999, 100)}

Obs(b, r, s) ==
  [phi |-> [n \in Used(b) |-> Phi(b, r, s, n)],
   u   |-> [i \in DOMAIN b |-> U(b, r, s, i)],
   i   |-> [i \in DOMAIN b |-> IRep(b, r, s, i)],
   p   |-> [i \in DOMAIN b |-> Pow(b, r, s, i)]]

AtW(w) == LET b == NetAt(cs, w, Res) r == RefOf(Listed) s == SolveOpt(b, r) IN
   IF s = <<>> THEN [w |-> w, ok |-> FALSE]
   ELSE [w |-> w, ok |-> TRUE, x |-> Obs(b, r, s),
         thm |->
           /\ Assert(IsSolutionVec(b, r, s), "C02: not a solution of the circuit equations")
           /\ Assert(PowerBalance(b, r, s), "C05: complex powers do not sum to zero")
           /\ Assert(\A i \in DOMAIN cs :
                  /\ (cs[i].kind = "capacitor" /\ w = R0) => CIsZero(Flow(b, r, s, i))
                  /\ (cs[i].kind = "inductance" /\ w = R0) => CIsZero(U(b, r, s, i))
                  /\ (cs[i].kind \in {"resistor", "lamp", "resistive_load", "conductance"}) =>
                         (CIsReal(Pow(b, r, s, i)) /\ RSign(CRe(Pow(b, r, s, i))) >= 0)
                  /\ (cs[i].kind = "resistor") => Pow(b, r, s, i) = CQ(RMul(CAbs2(IRep(b, r, s, i)), cs[i].v.R))
                  /\ (cs[i].kind = "inductance") => (RIsZero(CRe(Pow(b, r, s, i))) /\ RSign(CIm(Pow(b, r, s, i))) >= 0)
                  /\ (cs[i].kind = "capacitor") => (RIsZero(CRe(Pow(b, r, s, i))) /\ RSign(CIm(Pow(b, r, s, i))) <= 0),
                  "C02/C05: DC behaviour of C/L or the sign of an element power is wrong")]

\* frequencies just inside / outside the resolution only exercise the gating of sources; they are
\* used on circuits without reactive or complex elements (keeps the exact arithmetic within 32 bits)
Plain == \A i \in DOMAIN cs : cs[i].kind \notin {"capacitor", "inductance", "impedance", "admittance"}
FreqsHere == IF Plain THEN Freqs \cup NearFreqs ELSE Freqs
Check == ShapeC =>
   LET res == [w \in FreqsHere |-> AtW(w)] IN
   /\ \A w \in FreqsHere : res[w].ok => res[w].thm
   /\ (\E w \in FreqsHere : res[w].ok) =>
        PrintT(<<"CASE", ToJson([comps |-> Listed, ref |-> RefOf(Listed), res |-> Res,
                  at |-> [w \in FreqsHere |-> IF res[w].ok THEN [w |-> w, ok |-> TRUE, x |-> res[w].x] ELSE [w |-> w, ok |-> FALSE]]])>>)
=============================================================================
