SPECIFICATION Spec
CONSTANTS
  MaxB = 4
  MaxN = 4
  Refs = {0}
  SymKinds = {"R", "Vr"}
  KeepMode = "few"
  ValTab <- ValsPrime
  Canon = TRUE
  Kinds = {"R","Vr","S"}
INVARIANT Check
CHECK_DEADLOCK FALSE
