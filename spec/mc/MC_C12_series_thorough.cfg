SPECIFICATION Spec
CONSTANTS
  MaxB = 4
  MaxN = 4
  Gnds = {9}
  Canon = TRUE
  SymKinds = {"Ra", "DV"}
  Kinds = {"Ra","La","Ca","DV"}
  K = 6
INVARIANT CheckT
CHECK_DEADLOCK FALSE
