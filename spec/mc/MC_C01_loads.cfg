SPECIFICATION Spec
CONSTANTS
  MaxB = 3
  MaxN = 3
  ValTab <- ValsSmall
  Refs = {0, 1}
  SymKinds = {}
  Canon = TRUE
  Kinds = {"R","LVr","LIr","LI","Vr","ILr"}
INVARIANT Check
CHECK_DEADLOCK FALSE
