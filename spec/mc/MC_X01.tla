------------------------------- MODULE MC_X01 -------------------------------
(* model of Switchboard: one configuration per position of the source in the item list (its voltage is SrcAt + 1) *)
EXTENDS Switchboard
=============================================================================
