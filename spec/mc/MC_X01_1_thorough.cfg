SPECIFICATION Spec
CONSTANTS
  MaxSteps = 4
  SrcAt = 1
  Randomised = FALSE
INVARIANT Check
CHECK_DEADLOCK FALSE
