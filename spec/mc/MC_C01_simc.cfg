SPECIFICATION Spec
CONSTANTS
  MaxB = 4
  MaxN = 4
  ValTab <- ValsSmall
  Refs = {0, 1, 2, 3, 4}
  SymKinds = {}
  Canon = FALSE
  Kinds = {"R","G","Z","Y","LV","LI","V","VL","I","IL","S","O"}
INVARIANT Check
CHECK_DEADLOCK FALSE
