SPECIFICATION Spec
CONSTANTS
  MaxB = 3
  MaxN = 3
  Canon = TRUE
  Refs = {0}
  SymKinds = {"R","Y","LV"}
  ValTab <- ValsPrime
  Kinds = {"R","Y","LV","V","VL","I","IL"}
INVARIANT Check
CHECK_DEADLOCK FALSE
