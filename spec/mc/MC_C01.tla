------------------------------- MODULE MC_C01 -------------------------------
(***************************************************************************)
(* Bounded model for C01: every connected network of at most MaxB branches *)
(* over the nodes 0..MaxN-1, every element kind, both terminal orders,     *)
(* parallel branches, every reference node.                                *)
(* TLC checks on each reachable well-posed network that the constructive   *)
(* solution (MNA + Cramer) satisfies the declarative circuit equations,    *)
(* and prints the scenario with the exact expected observation.            *)
(***************************************************************************)
EXTENDS NetGen


\* ---- properties checked on the model itself, and scenario emission (spec -> code replay),
\* in one pass over the solution.  Assert names the violated property.
Observe(s) ==
  [phi |-> [n \in Used(br) |-> Phi(br, ref, s, n)],
   u   |-> [i \in DOMAIN br |-> U(br, ref, s, i)],
   i   |-> [i \in DOMAIN br |-> IRep(br, ref, s, i)],
   p   |-> [i \in DOMAIN br |-> Pow(br, ref, s, i)]]
Check == Shape => LET s == SolveOpt(br, ref) IN
   s # <<>> =>
     /\ Assert(IsSolutionVec(br, ref, s), "C01_Kirchhoff: the constructive solution violates the circuit equations")
     /\ Assert(PowerBalance(br, ref, s), "C05_Tellegen: powers do not sum to zero")
     /\ PrintT(<<"CASE", ToJson([br |-> br, ref |-> ref, expect |-> Observe(s)])>>)
\* the same properties as separate invariants (used by the thorough configuration)
C01_Kirchhoff == InDomain => SolvedIsSolution(br, ref)
C05_Tellegen  == InDomain => PowerBalance(br, ref, Solve(br, ref))
=============================================================================
