SPECIFICATION Spec
CONSTANTS
  Tier = "thorough"
INVARIANT Check
CHECK_DEADLOCK FALSE
