SPECIFICATION Spec
CONSTANTS
  MaxSteps = 2
  SrcAt = 2
  Randomised = FALSE
INVARIANT Check
CHECK_DEADLOCK FALSE
