SPECIFICATION Spec
CONSTANTS
  MaxB = 4
  MaxN = 4
  Gnds = {9}
  Canon = TRUE
  SymKinds = {"Ra", "La", "Cb", "DV", "R"}
  Kinds = {"Ra","La","Cb","DV","R"}
  Ws <- WsSweep
INVARIANT Check
CHECK_DEADLOCK FALSE
