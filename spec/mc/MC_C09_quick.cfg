SPECIFICATION Spec
CONSTANTS
  MaxB = 3
  MaxN = 3
  Gnds = {9}
  Canon = TRUE
  SymKinds = {"R","C","L"}
  Kinds = {"R","C","L","AV2","PVr","PVt","PIs"}
  WMaxs <- WMaxQuick
  Res <- ResDefault
INVARIANT Check
CHECK_DEADLOCK FALSE
