------------------------------- MODULE MC_C10 -------------------------------
(***************************************************************************)
(* C10 - the state-space model is an exact realisation of the circuit;     *)
(* C11 - the derived dynamics are passive.                                 *)
(* For every non-degenerate RLC + ideal-source circuit of the bounded      *)
(* generator TLC derives (A, B) and all output rows by substitution        *)
(* (module StateSpace) and checks                                          *)
(*   C (jwI - A)^-1 B + D  =  phasor response to each source alone         *)
(* for every output (node potential, element voltage, element current) and *)
(* every frequency of Ws, including the DC gain at w = 0; the state        *)
(* dimension is #C + #L; W A + A^T W is negative semidefinite (exact       *)
(* principal minors).  The scenario is emitted with the exact responses.   *)
(***************************************************************************)
EXTENDS CircGen, StateSpace
CONSTANTS Ws, Light        \* Light: emit the scenario with its DC gains only (the transfer-function theorem is checked by the other configurations)

WsQuick == {R0, Q(1,2), RI(2)}
WsAll == {R0, Q(1,2), R1, RI(2), RI(10)}
WsOne == {R0, RI(2)}          \* one frequency away from 0: the quick tier's five-branch family (at w = 0 a capacitor current is 0 whatever row is used)

Check == (ShapeC /\ InSSDomain(cs)) =>
  LET ref == RefOf(Listed) IN
  NonDegenerate(cs, ref) =>
    LET n == NS(cs) m == NU(cs)
        A == Amat(cs, ref)
        B == Bmat(cs, ref)
        outs == Outputs(cs)
        okW == {w \in (IF Light THEN {R0} ELSE Ws) : PhasorOK(cs, ref, w)}
        resp == [w \in okW |-> [q \in 1..m |-> [o \in outs |-> Phasor(cs, ref, w, q, o)]]]
    IN
    /\ Assert(n = Cardinality(Caps(cs)) + Cardinality(Inds(cs)), "C10: state dimension")
    /\ Assert(Light \/ \A w \in okW : \A q \in 1..m : \A o \in outs : TF(cs, ref, A, B, w, q, o) = resp[w][q][o],
              "C10: transfer function of the substituted model differs from the phasor response")
    /\ Assert(NegSemiDef(Mmat(cs, A), n), "C11: W A + A^T W is not negative semidefinite")
    /\ Assert(\A r, k \in 1..n : CIsReal(A[r][k]), "state matrix must be real")
    /\ PrintT(<<"CASE", ToJson([comps |-> Listed, ref |-> ref,
          states |-> [r \in 1..n |-> cs[StateAt(cs, r)].id], sources |-> [q \in 1..m |-> cs[SrcAt(cs, q)].id],
          A |-> [r \in 1..n |-> [k \in 1..n |-> A[r][k][1]]], B |-> [r \in 1..n |-> [q \in 1..m |-> B[r][q][1]]],
          resp |-> [w \in okW |-> [w |-> w, r |-> [q \in 1..m |->
                      [phi |-> [o \in {x \in outs : x[1] = "phi"} |-> <<o[2], resp[w][q][o]>>],
                       u   |-> [i \in DOMAIN cs |-> resp[w][q][<<"u", i>>]],
                       i   |-> [i \in DOMAIN cs |-> resp[w][q][<<"i", i>>]]]]]]])>>)
=============================================================================
