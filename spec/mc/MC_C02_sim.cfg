SPECIFICATION Spec
CONSTANTS
  MaxB = 4
  MaxN = 3
  Gnds = {9, 0, 1, 2}
  Canon = FALSE
  SymKinds = {"R","G","Z","Y","C","L","LP","LD"}
  Kinds = {"R","G","Z","Y","C","L","LP","LD","SC","DV","DVR","AV1","AVR1","AV2","DI","DIG","AI1","AIG1","AI2"}
  Freqs <- FreqsAll
  NearFreqs <- NearAll
  Res <- ResDefault
INVARIANT Check
CHECK_DEADLOCK FALSE
