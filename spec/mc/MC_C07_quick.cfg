SPECIFICATION Spec
CONSTANTS
  Tier = "quick"
INVARIANT Check
CHECK_DEADLOCK FALSE
