SPECIFICATION Spec
CONSTANTS
  MaxItems = 8
  WireWeight = 30
  WithAC = FALSE
  Randomised = TRUE
  MaxLabels = 3
  MinItems = 4
  Syms = {"R", "G", "Z", "C", "L", "lamp", "sw_open", "sw_closed", "lline", "V", "I", "ACV", "ACI", "CV", "CI", "RectV", "TriV", "SawV", "RectI", "TriI", "SawI"}
INVARIANT Check
CHECK_DEADLOCK FALSE
