SPECIFICATION Spec
CONSTANTS
  MaxB = 4
  MaxN = 3
  Gnds = {9, 0, 1}
  Canon = TRUE
  SymKinds = {"R"}
  Kinds = {"R","C","L","DV","DI"}
  Light = FALSE
  Ws <- WsAll
INVARIANT Check
CHECK_DEADLOCK FALSE
