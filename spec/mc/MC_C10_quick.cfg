SPECIFICATION Spec
CONSTANTS
  MaxB = 4
  MaxN = 3
  Gnds = {9}
  Canon = TRUE
  SymKinds = {"R", "DV"}
  Kinds = {"R","C","L","DV","DI"}
  Light = FALSE
  Ws <- WsQuick
INVARIANT Check
CHECK_DEADLOCK FALSE
