------------------------------- MODULE MC_C17c -------------------------------
(* circuit-loader table: the components of MC_C07's enumeration whose kind the loader knows *)
EXTENDS MC_C07
CircKindsL == {"resistor", "conductance", "impedance", "admittance", "dc_voltage_source", "ac_voltage_source", "complex_voltage_source",
              "dc_current_source", "ac_current_source", "complex_current_source"}
LoaderComps == {c \in Passive \cup Sources : c.kind \in CircKindsL}
NoNext == FALSE /\ UNCHANGED vars
EmitC == pos = 0 => (comp \in LoaderComps => PrintT(<<"CASE", ToJson([comp |-> comp])>>))
=============================================================================
