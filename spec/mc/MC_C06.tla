------------------------------- MODULE MC_C06 -------------------------------
(***************************************************************************)
(* C06 - port behaviour: driving-point impedance, Thevenin / Norton.       *)
(* PortZ (module Net) is the voltage produced by a unit test current with   *)
(* every independent source deactivated.  On every well-posed network of    *)
(* the bounded generator TLC checks: symmetry, zero for equal nodes and     *)
(* across an ideal voltage source, series / parallel composition, the       *)
(* voltage-divider law for every load (Thevenin) and Isc = Voc/Zth; and     *)
(* emits the exact port impedances, element impedances and open-circuit     *)
(* voltages for replay.                                                     *)
(***************************************************************************)
EXTENDS NetGen
CONSTANT DoTheorems

Loads == { C1, CR(1, 3), CI(2) }
N == Used(br)
Pairs == {p \in N \X N : p[1] # p[2]}
\* a fresh node / ids for attached elements
Fresh == SetMax(N) + 1
WithParallel(a, b, e) == Append(br, Br(90, a, b, e))
WithSeries(b, e) == Append(br, Br(91, b, Fresh, e))     \* port (a, Fresh)
Uab(bb, r, s, a, b) == CSub(Phi(bb, r, s, a), Phi(bb, r, s, b))

ZOpt(bb, a, b) == IF a = b THEN [d |-> TRUE, z |-> C0]
                  ELSE IF ~PortConnected(bb, a, b) THEN [d |-> FALSE, why |-> "disconnected"]
                  ELSE LET pn == PortNet(bb, a, b) s == SolveOpt(pn, b) IN
                       IF s = <<>> THEN [d |-> FALSE, why |-> "singular"] ELSE [d |-> TRUE, z |-> Phi(pn, b, s, a)]
\* the (defective) reading in which ideal voltage sources are ignored instead of shorted -
\* emitted only so that the harness can recognise that particular known deviation precisely
NoIdealV(bb) == FilterIdx(bb, {i \in DOMAIN bb : ~IsIdealV(bb[i].e)})

Theorems(s0, Z) ==
  /\ Assert(\A p \in Pairs : Z[p].d = Z[<<p[2], p[1]>>].d /\ (Z[p].d => Z[p].z = Z[<<p[2], p[1]>>].z), "C06: port impedance is not symmetric")
  /\ Assert(\A i \in DOMAIN br : IsIdealV(br[i].e) => (Z[<<br[i].n1, br[i].n2>>].d /\ CIsZero(Z[<<br[i].n1, br[i].n2>>].z)), "C06: impedance across an ideal voltage source is not zero")
  /\ \A p \in Pairs : Z[p].d =>
       LET a == p[1] b == p[2] zth == Z[p].z voc == Uab(br, ref, s0, a, b) IN
       /\ \A zl \in Loads :
            \* parallel composition of the port impedance
            /\ (~CIsZero(CAdd(zth, zl)) => LET zp == ZOpt(WithParallel(a, b, EImpedance(zl)), a, b) IN
                   Assert(zp.d /\ zp.z = CDiv(CMul(zth, zl), CAdd(zth, zl)), "C06: parallel composition"))
            \* series composition
            /\ LET zs == ZOpt(WithSeries(b, EImpedance(zl)), a, Fresh) IN Assert(zs.d /\ zs.z = CAdd(zth, zl), "C06: series composition")
            \* Thevenin: loaded port voltage = Voc * ZL / (Zth + ZL)
            /\ (~CIsZero(CAdd(zth, zl)) => LET lb == WithParallel(a, b, EImpedance(zl)) sl == SolveOpt(lb, ref) IN
                   Assert(sl # <<>> /\ Uab(lb, ref, sl, a, b) = CDiv(CMul(voc, zl), CAdd(zth, zl)), "C06: Thevenin voltage divider"))
       \* Norton: current through a short across the port = Voc / Zth
       /\ (~CIsZero(zth) => LET sb == WithParallel(a, b, EShort) ss == SolveOpt(sb, ref) IN
                   Assert(ss # <<>> /\ Flow(sb, ref, ss, Len(sb)) = CDiv(voc, zth), "C06: Isc = Voc / Zth"))

Check == Shape =>
  LET s0 == SolveOpt(br, ref) IN
  s0 # <<>> =>
    LET Z == [p \in Pairs |-> ZOpt(br, p[1], p[2])] IN
    /\ (DoTheorems => Theorems(s0, Z))
    /\ PrintT(<<"CASE", ToJson([br |-> br, ref |-> ref,
          phi |-> [n \in N |-> Phi(br, ref, s0, n)],
          z   |-> [p \in Pairs |-> [a |-> p[1], b |-> p[2], r |-> Z[p], alt |-> ZOpt(NoIdealV(br), p[1], p[2])]],
          ez  |-> [i \in DOMAIN br |-> [r |-> ZOpt(ElemPortBr(br, i), br[i].n1, br[i].n2), alt |-> ZOpt(NoIdealV(ElemPortBr(br, i)), br[i].n1, br[i].n2)]]])>>)
=============================================================================
