INIT Init
NEXT NoNext
CONSTANTS
  Tier = "quick"
INVARIANT EmitC
CHECK_DEADLOCK FALSE
