SPECIFICATION Spec
CONSTANTS
  MaxB = 3
  MaxN = 3
  Gnds = {9, 1}
  Canon = TRUE
  SymKinds = {"R","C","L"}
  Kinds = {"R","C","L","DVR","AV1","AIG1"}
  Freqs <- FreqsSmall
  NearFreqs <- NearNone
  Res <- ResDefault
INVARIANT Check
INVARIANT CheckRev
CHECK_DEADLOCK FALSE
