SPECIFICATION Spec
CONSTANTS
  MaxB = 3
  MaxN = 3
  Gnds = {9}
  Canon = TRUE
  SymKinds = {"R","Y","C","L","LP"}
  Kinds = {"R","C","L","Y","AVR1","DIG","AI2"}
  Freqs <- FreqsQuick
  NearFreqs <- NearNone
  Res <- ResDefault
INVARIANT Check
CHECK_DEADLOCK FALSE
