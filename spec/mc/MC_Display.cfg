SPECIFICATION Spec
CONSTANTS
  MaxM = 120
  MaxDigits = 1300
INVARIANT Agrees
CHECK_DEADLOCK FALSE
