SPECIFICATION Spec
CONSTANTS
  MaxItems = 8
  WireWeight = 30
  WithAC = TRUE
  Randomised = TRUE
  MaxLabels = 3
  MinItems = 4
  Syms = {"R", "G", "Z", "C", "L", "lamp", "sw_open", "V", "I", "ACV", "ACI", "CV"}
INVARIANT Check
CHECK_DEADLOCK FALSE
