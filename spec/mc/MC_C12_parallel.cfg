SPECIFICATION Spec
CONSTANTS
  MaxB = 4
  MaxN = 2
  Gnds = {9, 1}
  Canon = TRUE
  SymKinds = {"Rb"}
  Kinds = {"Rb","Lb","Cb","DI"}
  K = 6
INVARIANT CheckT
CHECK_DEADLOCK FALSE
