SPECIFICATION Spec
CONSTANTS
  MaxSteps = 4
  SrcAt = 3
  Randomised = FALSE
INVARIANT Check
CHECK_DEADLOCK FALSE
