------------------------------- MODULE MC_C03 -------------------------------
(***************************************************************************)
(* C03 - results are independent of names, listing order, reference node   *)
(* and terminal order (network level).                                     *)
(* Renaming and permuting are identities on the specification's abstract   *)
(* state (nodes and ids carry no order that the operators use, which TLC   *)
(* confirms for the permutation), so the content here is:                  *)
(*   Reverse(S): swapping the terminals of the elements in S and negating  *)
(*     their source values leaves every potential unchanged and negates    *)
(*     exactly those elements' own voltage and current;                    *)
(*   SwitchRef(g): all potentials shift by the common constant phi(g);     *)
(*   port impedances are unchanged by both.                                *)
(* The replay applies renamings, permutations, reversals and reference     *)
(* changes to the real objects and compares with these relations.          *)
(***************************************************************************)
EXTENDS NetGen
CONSTANT DoPorts

NegSrc(e) == [e EXCEPT !.src = CNeg(@)]
ReverseSet(b, S) == [i \in DOMAIN b |-> IF i \in S THEN [b[i] EXCEPT !.n1 = b[i].n2, !.n2 = b[i].n1, !.e = NegSrc(b[i].e)] ELSE b[i]]
Permuted(b, f) == [i \in DOMAIN b |-> b[f[i]]]
Perms(n) == {f \in [1..n -> 1..n] : \A i, j \in 1..n : i # j => f[i] # f[j]}
IdxOfId(b, id) == CHOOSE i \in DOMAIN b : b[i].id = id

Obs(b, r, s) ==
  [phi |-> [n \in Used(b) |-> Phi(b, r, s, n)],
   u   |-> [i \in DOMAIN b |-> U(b, r, s, i)],
   i   |-> [i \in DOMAIN b |-> IRep(b, r, s, i)],
   p   |-> [i \in DOMAIN b |-> Pow(b, r, s, i)]]
Pairs == {p \in Used(br) \X Used(br) : p[1] # p[2]}
ZOpt(bb, a, b) == IF ~PortConnected(bb, a, b) THEN [d |-> FALSE]
                  ELSE LET pn == PortNet(bb, a, b) s == SolveOpt(pn, b) IN IF s = <<>> THEN [d |-> FALSE] ELSE [d |-> TRUE, z |-> Phi(pn, b, s, a)]

Check == Shape =>
  LET s0 == SolveOpt(br, ref) IN
  s0 # <<>> =>
    /\ Assert(\A S \in SUBSET DOMAIN br :
          LET rb == ReverseSet(br, S) s1 == SolveOpt(rb, ref) IN
          /\ s1 # <<>>
          /\ \A n \in Used(br) : Phi(rb, ref, s1, n) = Phi(br, ref, s0, n)
          /\ \A i \in DOMAIN br : /\ U(rb, ref, s1, i) = (IF i \in S THEN CNeg(U(br, ref, s0, i)) ELSE U(br, ref, s0, i))
                                  /\ IRep(rb, ref, s1, i) = (IF i \in S THEN CNeg(IRep(br, ref, s0, i)) ELSE IRep(br, ref, s0, i))
                                  /\ Pow(rb, ref, s1, i) = Pow(br, ref, s0, i),
          "C03: reversing terminals (with negated source value) changed more than the element's own signs")
    /\ Assert(\A g \in Used(br) : LET sg == SolveOpt(br, g) IN sg # <<>> /\
          /\ \A n \in Used(br) : Phi(br, g, sg, n) = CSub(Phi(br, ref, s0, n), Phi(br, ref, s0, g))
          /\ \A i \in DOMAIN br : IRep(br, g, sg, i) = IRep(br, ref, s0, i),
          "C03: another reference node is not a common shift of the potentials")
    /\ Assert(\A f \in Perms(Len(br)) : LET pb == Permuted(br, f) sp == SolveOpt(pb, ref) IN sp # <<>> /\
          /\ \A n \in Used(br) : Phi(pb, ref, sp, n) = Phi(br, ref, s0, n)
          /\ \A i \in DOMAIN br : IRep(pb, ref, sp, i) = IRep(br, ref, s0, f[i]),
          "C03: listing order changed the solution")
    /\ (DoPorts => Assert(\A S \in SUBSET DOMAIN br : \A p \in Pairs : ZOpt(ReverseSet(br, S), p[1], p[2]) = ZOpt(br, p[1], p[2]),
          "C03: reversing terminals changed a port impedance"))
    /\ PrintT(<<"CASE", ToJson([br |-> br, ref |-> ref, expect |-> Obs(br, ref, s0),
          z |-> [p \in Pairs |-> [a |-> p[1], b |-> p[2], r |-> ZOpt(br, p[1], p[2])]]])>>)
=============================================================================
