SPECIFICATION Spec
CONSTANTS
  MaxB = 3
  MaxN = 3
  Refs = {0, 1, 2}
  SymKinds = {"R", "G", "O"}
  DoTheorems = TRUE
  ValTab <- ValsSmall
  Canon = TRUE
  Kinds = {"R","G","Vr","VLr","ILr","O"}
INVARIANT Check
CHECK_DEADLOCK FALSE
