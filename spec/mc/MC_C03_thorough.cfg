SPECIFICATION Spec
CONSTANTS
  MaxB = 3
  MaxN = 3
  Refs = {0, 1}
  SymKinds = {}
  DoPorts = TRUE
  ValTab <- ValsPrime
  Canon = TRUE
  Kinds = {"R","Z","Y","LV","V","VL","I","IL","S","O"}
INVARIANT Check
CHECK_DEADLOCK FALSE
