SPECIFICATION Spec
CONSTANTS
  MaxB = 3
  MaxN = 3
  Refs = {0, 1, 2}
  SymKinds = {"R", "Y", "O"}
  DoTheorems = FALSE
  ValTab <- ValsPrime
  Canon = TRUE
  Kinds = {"R","Y","V","VL","IL","O"}
INVARIANT Check
CHECK_DEADLOCK FALSE
