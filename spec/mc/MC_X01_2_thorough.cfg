SPECIFICATION Spec
CONSTANTS
  MaxSteps = 4
  SrcAt = 2
  Randomised = FALSE
INVARIANT Check
CHECK_DEADLOCK FALSE
