SPECIFICATION Spec
CONSTANTS
  MaxB = 3
  MaxN = 3
  Refs = {0, 1, 2}
  SymKinds = {"R","Z","Y","LV","O","S"}
  DoTheorems = FALSE
  ValTab <- ValsPrime
  Canon = TRUE
  Kinds = {"R","Z","Y","LV","V","VL","I","IL","S","O"}
INVARIANT Check
CHECK_DEADLOCK FALSE
