SPECIFICATION Spec
CONSTANTS
  NMax = 400
INVARIANT C08_True
INVARIANT C08_Forms
INVARIANT Emit
CHECK_DEADLOCK FALSE
