SPECIFICATION Spec
CONSTANTS
  MaxB = 5
  MaxN = 3
  Gnds = {9}
  Canon = TRUE
  SymKinds = {"R", "DI"}
  Kinds = {"R","L","DI"}
  Light = FALSE
  Ws <- WsQuick
INVARIANT Check
CHECK_DEADLOCK FALSE
