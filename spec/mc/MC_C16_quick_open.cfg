SPECIFICATION Spec
CONSTANTS
  MaxB = 3
  MaxN = 3
  Refs = {0, 1}
  SymKinds = {"R"}
  KeepMode = "few"
  ValTab <- ValsPrime
  Canon = TRUE
  Kinds = {"R","Vr","IL","S","O"}
INVARIANT Check
CHECK_DEADLOCK FALSE
