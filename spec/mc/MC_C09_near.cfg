SPECIFICATION Spec
CONSTANTS
  MaxB = 3
  MaxN = 3
  Gnds = {9}
  Canon = TRUE
  SymKinds = {"R","AVn","AVm"}
  Kinds = {"R","PIh","AVn","AVm","PVh"}
  WMaxs <- WMaxNear
  Res <- ResDefault
INVARIANT Check
CHECK_DEADLOCK FALSE
