------------------------------- MODULE MC_C17 -------------------------------
(***************************************************************************)
(* C17 - loading describes exactly what was written, without side effects. *)
(* Scenario: a network description of three entries - the entry under test *)
(* (every kind of the loader table, every notation of its complex fields,  *)
(* optional fields present or absent) at every position among fillers.     *)
(* Expected: LoadNetwork(doc).  TLC checks that the three notations of one *)
(* number denote the same element.                                         *)
(***************************************************************************)
EXTENDS Docs, Json
VARIABLES kind, nts, pos, vi
vars == <<kind, nts, pos, vi>>

Units == << C1, CJ1, <<Q(3,5), Q(4,5)>>, <<Q(-5,13), Q(12,13)>>, <<Q(8,17), Q(-15,17)>>, CNeg(C1) >>
Mags == << Q(2,1), Q(1,3), R0 >>          \* including the number zero in every notation
Reals == << Q(3,1), Q(-2,1), Q(1,4), R0 >>

\* value of field number j of the entry under test, for value index vi
FieldVal(k, f, j, nt) ==
   IF ComplexField(k, f) THEN Written(nt, Mags[((vi + j) % 3) + 1], Units[((vi + 2 * j) % 6) + 1])
   ELSE WrittenReal(Reals[((vi + j) % 4) + 1])
\* optional second field of real_* sources is present for odd value indices
FieldsHere(k) == LET fs == NetFields(k) IN
   IF k \in {"real_current_source", "real_voltage_source"} /\ vi % 2 = 0 THEN <<fs[1]>> ELSE fs
Entry(k, ntseq) == [type |-> k, id |-> 7, n1 |-> 2, n2 |-> 1,
                    val |-> LET fs == FieldsHere(k) IN [f \in {fs[j] : j \in DOMAIN fs} |-> LET j == CHOOSE i \in DOMAIN fs : fs[i] = f IN FieldVal(k, f, j, ntseq[j])]]
Filler(j) == [type |-> "resistor", id |-> j, n1 |-> 0, n2 |-> (IF j = 1 THEN 1 ELSE 2), val |-> [R |-> WrittenReal(RI(j + 1))]]
Doc == [j \in 1..3 |-> IF j = pos THEN Entry(kind, nts) ELSE Filler(j)]

Init == /\ kind \in NetKinds /\ pos = 0 /\ vi = 0 /\ nts = <<"ri", "ri">>
Next == /\ pos = 0 /\ pos' \in 1..3 /\ vi' \in 0..5
        /\ nts' \in [1..2 -> {"ri", "pr"}]
        /\ UNCHANGED kind
Spec == Init /\ [][Next]_vars

\* the element does not depend on the notation
SameDenotation == pos # 0 => \A a \in [1..2 -> {"ri", "pr", "pd"}] : LoadNetEntry(Entry(kind, a)) = LoadNetEntry(Entry(kind, nts))
Emit == pos # 0 => PrintT(<<"CASE", ToJson([doc |-> Doc, pos |-> pos, net |-> LoadNetwork(Doc)])>>)
=============================================================================
