SPECIFICATION Spec
CONSTANTS
  MaxB = 3
  MaxN = 3
  AllSubsets = TRUE
  Refs = {0, 1, 2, 3, 4}
  SymKinds = {}
  Canon = TRUE
  ValTab <- ValsPrime
  Kinds = {"R","Y","LV","V","VL","I","IL","S","O"}
INVARIANT Check
CHECK_DEADLOCK FALSE
