------------------------------- MODULE MC_C08 -------------------------------
(***************************************************************************)
(* C08 - the Fourier series of the built-in waveforms are the true         *)
(* coefficients.  State: a waveform (type, amplitude of either sign,       *)
(* offset, phase in quarter turns) and a harmonic order n that counts up   *)
(* to NMax.  Invariant: the library's closed-form amplitude(n) *           *)
(* exp(j phase(n)) equals twice the true Fourier coefficient obtained by   *)
(* the jump method from the waveform's own (shifted) break points; n = 0   *)
(* gives the mean; c(-n) = conj c(n); a = A cos, b = -A sin.               *)
(***************************************************************************)
EXTENDS Fourier, Json
CONSTANTS NMax
VARIABLES wave, n
vars == <<wave, n>>

Amps == { Q(1,1), Q(-3,2), Q(5,1) }
Offs == { R0, Q(2,3) }
KQs == -8..8
Init == wave \in [w : Waves, A : Amps, off : Offs, kq : KQs] /\ n = 0
Next == n < NMax /\ n' = n + 1 /\ wave' = wave
Spec == Init /\ [][Next]_vars

C08_True == CoefficientsAreTrue(wave.w, wave.A, wave.off, n, wave.kq)
\* cosine / sine / complex forms:  a + j*(-b) = A e^{j phi},  c(n) = A e^{j phi} / 2,  c(-n) = conj(c(n))
\* (definitional on the exact side: stated so that the replay has named expectations)
C08_Forms == LET h == HarmPhasorQ(wave.w, wave.A, wave.off, n, wave.kq)[2] IN
             CConj(CScale(Q(1,2), h)) = CScale(Q(1,2), CConj(h))

CirclePts == { <<R1, R0>>, <<R0, R1>>, <<Q(-1,1), R0>>, <<R0, Q(-1,1)>>, <<Q(3,5), Q(4,5)>>, <<Q(-4,5), Q(3,5)>>, <<Q(5,13), Q(-12,13)>>, <<Q(-8,17), Q(-15,17)>> }
Fractions == {Q(2 * k + 1, 128) : k \in 0..63}          \* never a break point
Emit == (n = 0 /\ wave.kq = 0) =>
   PrintT(<<"CASE", ToJson([w |-> wave.w, A |-> wave.A, off |-> wave.off,
        harm |-> [m \in 0..NMax |-> LibHarm(wave.w, wave.A, wave.off, m)],
        mean |-> Mean(wave.w, wave.A, wave.off),
        samples |-> IF wave.w \in PLWaves \cup {"const"} THEN [s \in Fractions |-> <<s, PLValue(wave.w, wave.A, wave.off, s)>>] ELSE <<>>,
        trig |-> IF wave.w \in {"cos", "sin"} THEN [cs \in CirclePts |-> <<cs, TrigValue(wave.w, wave.A, wave.off, cs)>>] ELSE <<>>])>>)
=============================================================================
