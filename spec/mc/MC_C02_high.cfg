SPECIFICATION Spec
CONSTANTS
  MaxB = 3
  MaxN = 3
  Gnds = {9, 1}
  Canon = TRUE
  SymKinds = {"R","LP"}
  Kinds = {"R","LP","DV","AVk","AIk","AVR1","CV","CI"}
  Freqs <- FreqsHigh
  NearFreqs <- NearHigh
  Res <- ResDefault
INVARIANT Check
CHECK_DEADLOCK FALSE
