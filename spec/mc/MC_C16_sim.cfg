SPECIFICATION Spec
CONSTANTS
  MaxB = 6
  MaxN = 5
  Refs = {0, 1, 2, 3, 4}
  SymKinds = {}
  KeepMode = "all"
  ValTab <- ValsSmall
  Canon = FALSE
  Kinds = {"R","G","Vr","VLr","Ir","ILr","S","O"}
INVARIANT Check
CHECK_DEADLOCK FALSE
