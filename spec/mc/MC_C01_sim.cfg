SPECIFICATION Spec
CONSTANTS
  MaxB = 5
  MaxN = 4
  ValTab <- ValsSmall
  Canon = FALSE
  Kinds = {"R","G","LVr","LIr","Vr","VLr","Ir","ILr","S","O"}
INVARIANT C01_Kirchhoff
INVARIANT Emit
CHECK_DEADLOCK FALSE
