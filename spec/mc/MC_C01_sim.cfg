SPECIFICATION Spec
CONSTANTS
  MaxB = 5
  MaxN = 4
  ValTab <- ValsSmall
  Refs = {0, 1, 2, 3, 4}
  Canon = FALSE
  Kinds = {"R","G","LVr","LIr","Vr","VLr","Ir","ILr","S","O"}
INVARIANT Check
CHECK_DEADLOCK FALSE
