SPECIFICATION Spec
CONSTANTS
  MaxB = 3
  MaxN = 3
  Gnds = {9, 1}
  Canon = TRUE
  SymKinds = {"R","Y","C","L","LP"}
  Kinds = {"R","Y","C","L","LP","DV","AVR1","AI2","DIG"}
  Freqs <- FreqsQuick
  NearFreqs <- NearQuick
  Res <- ResDefault
INVARIANT Check
CHECK_DEADLOCK FALSE
