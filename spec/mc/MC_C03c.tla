------------------------------- MODULE MC_C03c -------------------------------
(***************************************************************************)
(* C03 at the level of component circuits: reversing the terminal order of *)
(* components (negating a source's amplitude) leaves every potential       *)
(* unchanged and negates exactly those components' own voltage and         *)
(* current, at every analysis frequency.  Listing order and the placement  *)
(* of the ground component only select the reference node.                 *)
(***************************************************************************)
EXTENDS MC_C02

NegAmp(c) == IF c.kind \in {"dc_voltage_source", "ac_voltage_source", "periodic_voltage_source"} THEN [c EXCEPT !.v.V = RNeg(@)]
             ELSE IF c.kind \in {"dc_current_source", "ac_current_source", "periodic_current_source"} THEN [c EXCEPT !.v.I = RNeg(@)]
             ELSE IF c.kind = "complex_voltage_source" THEN [c EXCEPT !.v.V = CNeg(@)]
             ELSE IF c.kind = "complex_current_source" THEN [c EXCEPT !.v.I = CNeg(@)]
             ELSE c
ReverseComps(S) == [i \in DOMAIN cs |-> IF i \in S THEN [NegAmp(cs[i]) EXCEPT !.n1 = cs[i].n2, !.n2 = cs[i].n1] ELSE cs[i]]

CheckRev == ShapeC =>
   LET r == RefOf(Listed) IN
   \A w \in Freqs :
     LET b == NetAt(cs, w, Res) s0 == SolveOpt(b, r) IN
     s0 # <<>> =>
       Assert(\A S \in SUBSET DOMAIN cs :
          LET rb == NetAt(ReverseComps(S), w, Res) s1 == SolveOpt(rb, r) IN
          /\ s1 # <<>>
          /\ \A n \in Used(b) : Phi(rb, r, s1, n) = Phi(b, r, s0, n)
          /\ \A i \in DOMAIN b : /\ U(rb, r, s1, i) = (IF i \in S THEN CNeg(U(b, r, s0, i)) ELSE U(b, r, s0, i))
                                 /\ IRep(rb, r, s1, i) = (IF i \in S THEN CNeg(IRep(b, r, s0, i)) ELSE IRep(b, r, s0, i)),
          "C03: reversing a component changed more than its own signs")
=============================================================================
