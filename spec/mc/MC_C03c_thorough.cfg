SPECIFICATION Spec
CONSTANTS
  MaxB = 3
  MaxN = 3
  Gnds = {9, 0, 1}
  Canon = TRUE
  SymKinds = {"R","G","C","L","LP"}
  Kinds = {"R","G","C","L","LP","DV","DVR","AV1","AVR1","DIG","AI1","AIG1"}
  Freqs <- FreqsSmall
  NearFreqs <- NearNone
  Res <- ResDefault
INVARIANT Check
INVARIANT CheckRev
CHECK_DEADLOCK FALSE
