SPECIFICATION Spec
CONSTANTS
  MaxB = 3
  MaxN = 4
  Gnds = {9}
  Canon = TRUE
  SymKinds = {"Ra", "La", "Cb", "DV", "R"}
  Kinds = {"Ra","La","Cb","R"}
  Ws <- WsSweep
INVARIANT Check
CHECK_DEADLOCK FALSE
