SPECIFICATION Spec
CONSTANTS
  MaxEntries = 5
  WireWeight = 8
  WithAC = TRUE
  Randomised = TRUE
  Types = {"R", "C", "L", "lline", "V", "ACV", "ACI"}
INVARIANT Check
CHECK_DEADLOCK FALSE
