SPECIFICATION Spec
CONSTANTS
  MaxItems = 7
  WireWeight = 25
  WithAC = FALSE
  Randomised = TRUE
  MaxLabels = 0
  MinItems = 3
  Syms = {"R", "G", "Z", "C", "L", "V", "I", "ACV", "ACI", "CV", "CI", "RectV", "RectI"}
INVARIANT Check
CHECK_DEADLOCK FALSE
