SPECIFICATION Spec
CONSTANTS
  MaxB = 5
  MaxN = 4
  Gnds = {9}
  Canon = TRUE
  SymKinds = {"R", "DV", "C"}
  Kinds = {"R","C","DV"}
  Light = FALSE
  Ws <- WsOne
INVARIANT Check
CHECK_DEADLOCK FALSE
