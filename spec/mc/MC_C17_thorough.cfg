SPECIFICATION Spec
INVARIANT SameDenotation
INVARIANT Emit
CHECK_DEADLOCK FALSE
