SPECIFICATION Spec
CONSTANTS
  MaxSteps = 2
  SrcAt = 3
  Randomised = FALSE
INVARIANT Check
CHECK_DEADLOCK FALSE
