SPECIFICATION Spec
CONSTANTS
  MaxB = 3
  MaxN = 3
  Gnds = {9, 1}
  Canon = TRUE
  SymKinds = {"R","C","L","G"}
  Kinds = {"R","G","C","L","DV","DIG","AV2","AI1","PVr","PVt","PVs","PIs","PIr","PVRr"}
  WMaxs <- WMaxAll
  Res <- ResDefault
INVARIANT Check
CHECK_DEADLOCK FALSE
