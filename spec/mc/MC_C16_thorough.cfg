SPECIFICATION Spec
CONSTANTS
  MaxB = 4
  MaxN = 4
  Refs = {0, 1}
  SymKinds = {"R", "O"}
  KeepMode = "single"
  ValTab <- ValsPrime
  Canon = TRUE
  Kinds = {"R","Vr","S","O"}
INVARIANT Check
CHECK_DEADLOCK FALSE
