SPECIFICATION Spec
CONSTANTS
  MaxSteps = 2
  SrcAt = 1
  Randomised = FALSE
INVARIANT Check
CHECK_DEADLOCK FALSE
