------------------------------- MODULE MC_C13 -------------------------------
(***************************************************************************)
(* C13 - schematic drawings are read as the netlist they depict.           *)
(* State: a drawing program under construction (at most MaxItems           *)
(* placements on the 3 x 3 grid, any supported symbol with either reversal *)
(* flag, wires, at most one ground and two labels).  For every program     *)
(* with at least one component the specification gives the intended        *)
(* netlist (module Drawing) and, when well posed, its exact DC solution;   *)
(* TLC checks that a quarter turn of the whole drawing leaves the netlist  *)
(* unchanged up to the renaming of nodes.                                  *)
(***************************************************************************)
EXTENDS Drawing, Json
CONSTANTS MaxItems, Syms, WireWeight, MinItems, WithAC, Randomised, MaxLabels
VARIABLES prog
vars == <<prog>>

Count(k) == Cardinality({i \in DOMAIN prog : prog[i].k = k})
UsedPts == {prog[i].a : i \in DOMAIN prog} \cup {prog[i].b : i \in DOMAIN prog}
Init == prog = <<>>
\* the placements that may follow (the tag t only weights the random choice of the simulator)
AdjPairs == {p \in Pts \X Pts : Adj(p[1], p[2])}
DegSyms == {"ACV", "ACI", "RectV", "TriV", "SawV", "RectI", "TriI", "SawI"}
Cand ==
   LET ok == {p \in AdjPairs : prog = <<>> \/ p[1] \in UsedPts \/ p[2] \in UsedPts} IN       \* drawings grow connected, as drawn circuits do
        {Item(k, p[1], p[2], FALSE, FALSE) : k \in Syms \ SourceSyms, p \in ok}
   \cup {Item(k, p[1], p[2], rev, FALSE) : k \in (Syms \cap SourceSyms) \ DegSyms, p \in ok, rev \in BOOLEAN}
   \cup {Item(k, p[1], p[2], rev, deg) : k \in Syms \cap DegSyms, p \in ok, rev \in BOOLEAN, deg \in BOOLEAN}
   \cup {Item("wire", p[1], p[2], FALSE, FALSE) @@ [t |-> t] : p \in ok, t \in 1..WireWeight}
   \cup (IF Count("gnd") = 0 THEN {Item("gnd", a, a, FALSE, FALSE) @@ [t |-> t] : a \in UsedPts, t \in 1..(3 * WireWeight)} ELSE {})
   \cup (IF Count("label") < MaxLabels THEN {Item("label", a, a, FALSE, FALSE) @@ [t |-> t] : a \in UsedPts, t \in 1..(3 * WireWeight)} ELSE {})
\* Randomised: the simulator draws ONE successor (TLC!RandomElement), so that every emitted scenario lies on an independent random path
Add == /\ Len(prog) < MaxItems
       /\ IF Randomised THEN prog' = Append(prog, RandomElement(Cand)) ELSE \E it \in Cand : prog' = Append(prog, it)
Next == Add
Spec == Init /\ [][Next]_vars

RotProg == MapPts(prog, Rot)
Check == (CompIdx(prog) # {} /\ Len(prog) >= MinItems) =>
   /\ Assert(SameUpToRenaming(prog, Rot, RotProg), "C13: a quarter turn of the drawing changed the netlist")
   /\ LET nl == Netlist(prog)
          ref == RefClass(prog)
          Sol(w) == LET net == DrawNet(prog, w, Q(1, 1000))
                        s == IF ref \in Used(net) THEN SolveOpt(net, ref) ELSE <<>>
                    IN IF s = <<>> THEN [ok |-> FALSE]
                       ELSE [ok |-> TRUE, phi |-> [n \in Used(net) |-> Phi(net, ref, s, n)],
                             u |-> [j \in DOMAIN net |-> U(net, ref, s, j)], i |-> [j \in DOMAIN net |-> IRep(net, ref, s, j)]]
      IN PrintT(<<"CASE", ToJson([prog |-> prog, netlist |-> nl, gnd |-> IF HasGnd(prog) THEN GndClass(prog) ELSE -1, ref |-> ref,
             labels |-> Labels(prog), classes |-> [p \in Pts |-> Rep(prog, p)],
             dc |-> Sol(R0), ac |-> IF WithAC THEN Sol(RI(2)) ELSE [ok |-> FALSE]])>>)
=============================================================================
