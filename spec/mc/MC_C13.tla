------------------------------- MODULE MC_C13 -------------------------------
(***************************************************************************)
(* C13 - schematic drawings are read as the netlist they depict.           *)
(* State: a drawing program under construction (at most MaxItems           *)
(* placements on the 3 x 3 grid, any supported symbol with either reversal *)
(* flag, wires, at most one ground and two labels).  For every program     *)
(* with at least one component the specification gives the intended        *)
(* netlist (module Drawing) and, when well posed, its exact DC solution;   *)
(* TLC checks that a quarter turn of the whole drawing leaves the netlist  *)
(* unchanged up to the renaming of nodes.                                  *)
(***************************************************************************)
EXTENDS Drawing, Json
CONSTANTS MaxItems, Syms, WireWeight, MinItems, WithAC
VARIABLES prog
vars == <<prog>>

Count(k) == Cardinality({i \in DOMAIN prog : prog[i].k = k})
UsedPts == {prog[i].a : i \in DOMAIN prog} \cup {prog[i].b : i \in DOMAIN prog}
Init == prog = <<>>
Add == /\ Len(prog) < MaxItems
       /\ \/ \E a \in Pts, b \in Pts, k \in Syms \cup {"wire"}, rev \in BOOLEAN, deg \in BOOLEAN :
               /\ Adj(a, b)
               /\ (prog = <<>> \/ a \in UsedPts \/ b \in UsedPts)        \* drawings grow connected, as drawn circuits do
               /\ (k \notin SourceSyms => ~rev)
               /\ (k \notin {"ACV", "ACI", "RectV", "TriV", "SawV", "RectI", "TriI", "SawI"} => ~deg)
               /\ prog' = Append(prog, Item(k, a, b, rev, deg))
          \* wires are as frequent in drawings as all other symbols together: the tag only makes the simulator choose them more often
          \/ \E a \in Pts, b \in Pts, t \in 1..WireWeight :
               /\ Adj(a, b) /\ (prog = <<>> \/ a \in UsedPts \/ b \in UsedPts)
               /\ prog' = Append(prog, Item("wire", a, b, FALSE, FALSE) @@ [t |-> t])
          \/ \E a \in UsedPts, t \in 1..(3 * WireWeight) : Count("gnd") = 0 /\ prog' = Append(prog, Item("gnd", a, a, FALSE, FALSE) @@ [t |-> t])
          \/ \E a \in UsedPts, t \in 1..WireWeight : Count("label") < 2 /\ prog' = Append(prog, Item("label", a, a, FALSE, FALSE) @@ [t |-> t])
Next == Add
Spec == Init /\ [][Next]_vars

RotProg == MapPts(prog, Rot)
Check == (CompIdx(prog) # {} /\ Len(prog) >= MinItems) =>
   /\ Assert(SameUpToRenaming(prog, Rot, RotProg), "C13: a quarter turn of the drawing changed the netlist")
   /\ LET nl == Netlist(prog)
          ref == RefClass(prog)
          Sol(w) == LET net == DrawNet(prog, w, Q(1, 1000))
                        s == IF ref \in Used(net) THEN SolveOpt(net, ref) ELSE <<>>
                    IN IF s = <<>> THEN [ok |-> FALSE]
                       ELSE [ok |-> TRUE, phi |-> [n \in Used(net) |-> Phi(net, ref, s, n)],
                             u |-> [j \in DOMAIN net |-> U(net, ref, s, j)], i |-> [j \in DOMAIN net |-> IRep(net, ref, s, j)]]
      IN PrintT(<<"CASE", ToJson([prog |-> prog, netlist |-> nl, gnd |-> IF HasGnd(prog) THEN GndClass(prog) ELSE -1, ref |-> ref,
             labels |-> Labels(prog), classes |-> [p \in Pts |-> Rep(prog, p)],
             dc |-> Sol(R0), ac |-> IF WithAC THEN Sol(RI(2)) ELSE [ok |-> FALSE]])>>)
=============================================================================
