----------------------------- MODULE MC_Display -----------------------------
(***************************************************************************)
(* Self-validation of the judge of rendered numbers (Display!RenderVerdict,*)
(* used for C18 and C14): on every value m * 10^e10 (m <= MaxM), precision *)
(* p and rendered number digits * 10^(oexp - ndec) of a bounded domain the *)
(* verdict is compared with the DEFINITION of C18 evaluated directly in    *)
(* integers at the common exponent -5 (no shortcut, no case split):        *)
(*   ok  <=>  same sign, exponent a multiple of three, mantissa in         *)
(*            [1, 1000], and |rendered - value| <= half a unit of the p-th *)
(*            significant digit of the value.                              *)
(* In particular the shortcut "leading digits two or more decimal places   *)
(* apart => magnitude" never rejects a rendering the definition accepts.   *)
(***************************************************************************)
EXTENDS Display, FiniteSets
CONSTANTS MaxM, MaxDigits
VARIABLES m
Init == m \in 1..MaxM
Next == UNCHANGED m
Spec == Init /\ [][Next]_m

Scale == 5          \* everything is compared in units of 10^-5
Val(mm, e) == mm * P10(e + Scale)
DefinitionOK(ev) ==
   LET E == NDig(ev.m) - 1 + ev.e10
       ue == E - ev.p + 1
       re == ev.oexp - ev.ndec
   IN /\ ev.osgn = ev.sgn
      /\ ev.oexp % 3 = 0
      /\ P10(ev.ndec) <= ev.digits /\ ev.digits <= 1000 * P10(ev.ndec)
      /\ 2 * AbsI(Val(ev.digits, re) - Val(ev.m, ev.e10)) <= Val(1, ue)
Agrees ==
   \A e10 \in -2..2, p \in 1..3, digits \in 1..MaxDigits, ndec \in 0..2, oexp \in {-3, 0, 3}, osgn \in {1, -1} :
      LET ev == [m |-> m, e10 |-> e10, sgn |-> 1, p |-> p, M |-> 16, inf |-> FALSE, osgn |-> osgn, digits |-> digits, ndec |-> ndec, oexp |-> oexp]
          E == NDig(m) - 1 + e10
      IN \* the domain keeps every quantity of the definition an integer multiple of 10^-5 and below 2^31
         (E - p + 1 + Scale >= 0 /\ oexp - ndec + Scale >= 0 /\ e10 + Scale >= 0
          /\ NDig(digits) + oexp - ndec + Scale <= 8 /\ NDig(m) + e10 + Scale <= 8 /\ E - p + 1 + Scale <= 8) =>
            Assert((RenderVerdict(ev) = "ok") = DefinitionOK(ev), <<"Display: verdict differs from the definition", ev, RenderVerdict(ev)>>)
=============================================================================
