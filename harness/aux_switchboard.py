"""./check X01 - growth of the specification beyond the listed properties: spec/Switchboard.tla (switches and lamps of a schematic as a
state machine) bound to SimpleCircuit.Elements.Switch.open/close/toggle, the circuit translator and LampLighter.light_lamps.

TLC enumerates every history of MaxSteps actions from every initial switch state (three source voltages) and checks the model's own
theorems; every history is replayed on a real Schematic and after each action the real state is compared with the specification's:
switch states, translated switch resistances, true lamp powers (DCSolution) and the brightness class light_lamps paints.

This is NOT a check of one of the listed properties: differences are printed as OBSERVATION lines and the exit code stays 0
(2 for machinery failures); nothing here is claimed in MANIFEST.json."""
from __future__ import annotations
import os, sys, json, math, collections, multiprocessing as mp, time
from .common import VERIF, MachineryError, Naming, rat, ensure_repo_import
from .tlc import TLCRun


def _replay(payload: str):
    ensure_repo_import()
    import matplotlib.pyplot as plt
    from .drawbuild import build_schematic
    from CircuitCalculator.SimpleCircuit import Elements as elm
    from CircuitCalculator.SimpleCircuit.DiagramTranslator import circuit_translator
    from CircuitCalculator.SimpleCircuit.LampLighter import light_lamps
    from CircuitCalculator.Circuit.solution import DCSolution
    case = json.loads(payload)
    out = []          # (signature, detail)
    n_obs = 0
    try:
        d, names, _ = build_schematic(case['prog'], case['netlist'], Naming(0))
        sw = {k + 1: d[names[i]] for k, i in enumerate(case['sw'])}
        lamp = {k + 1: names[i] for k, i in enumerate(case['lamp'])}
        rated = {k + 1: float(rat(r)) for k, r in enumerate(case['rated'])}

        def observe(exp, after):
            nonlocal n_obs
            for s in (1, 2):
                n_obs += 1
                got = sw[s].state == elm.SwitchState.CLOSED
                if got != exp['closed'][s - 1]:
                    out.append((f'switch_state:{after}', f'S{s} is {"closed" if got else "open"}, specification: {"closed" if exp["closed"][s - 1] else "open"}'))
            circ = circuit_translator(d)
            comps = {c.id: c for c in circ.components}
            for s in (1, 2):
                n_obs += 1
                R = float(comps[sw[s].name].value['R'])
                if (R > 1e6) != (sw[s].state == elm.SwitchState.OPEN):
                    out.append(('translation', f'S{s} in state {sw[s].state} translated to R={R}'))
            real_closed = [sw[s].state == elm.SwitchState.CLOSED for s in (1, 2)]
            if real_closed != exp['closed']:
                return False    # the circuit is not the one the specification is in: the rest of this history is not comparable
            sol = DCSolution(circ)
            for l in (1, 2):
                n_obs += 1
                want = float(rat(exp['p'][l - 1]))
                got = sol.get_power(lamp[l])
                if abs(got - want) > 1e-6 * max(1.0, abs(want)):
                    out.append(('dc_power', f'L{l}: DCSolution power {got}, specification {want}'))
            light_lamps(d)
            for l in (1, 2):
                n_obs += 1
                col = tuple(round(float(x), 3) for x in d[lamp[l]].segments[-1].color[:3])
                cls = 'off' if col == (1.0, 1.0, 1.0) else 'burnt' if col == (0.2, 0.2, 0.2) else 'lit'
                if cls != exp['cls'][l - 1]:
                    p = float(rat(exp['p'][l - 1]))
                    out.append((f'lamp_class:{exp["cls"][l - 1]}_shown_as_{cls}', f'L{l}: true power {p} W of rated {rated[l]} W ({100 * p / rated[l]:.0f} %) painted {cls}, specification {exp["cls"][l - 1]} (source {case["volts"]} V DC)'))
            return True

        if observe(case['start_obs'], 'construction'):
            for st in case['hist']:
                getattr(sw[st['s']], st['a'])()
                if not observe(st['obs'], st['a']):
                    break
    finally:
        plt.close('all')
    return n_obs, out


def run(tier: str, seed: int) -> int:
    t0 = time.time()
    ensure_repo_import()
    pool = mp.get_context('fork').Pool(16)
    sigs = collections.Counter()
    example = {}
    n_cases = n_obs = 0
    states = 0
    try:
        pending = []
        for k in (1, 2, 3):
            run_ = TLCRun(module='MC_X01.tla', cfg=f'MC_X01_{k}.cfg' if tier == 'quick' else f'MC_X01_{k}_thorough.cfg', workers=8)
            batch = []
            for _, payload in run_.lines():
                batch.append(payload)
                if len(batch) >= 50:
                    pending.append(pool.map_async(_replay, batch))
                    batch = []
            if batch:
                pending.append(pool.map_async(_replay, batch))
            run_.require_ok()
            states += run_.distinct
        for p in pending:
            for n, out in p.get():
                n_cases += 1
                n_obs += n
                for sig in {s for s, _ in out}:
                    sigs[sig] += 1
                for sig, detail in out:
                    example.setdefault(sig, detail)
    finally:
        pool.terminate()
    if n_cases == 0:
        raise MachineryError('Switchboard: no history was replayed')
    for sig, n in sorted(sigs.items()):
        print(f'OBSERVATION model=Switchboard (outside the listed properties) {sig}: {n} of {n_cases} histories, e.g. {example[sig]}')
    os.makedirs(os.path.join(VERIF, 'aux'), exist_ok=True)
    with open(os.path.join(VERIF, 'aux', 'switchboard_report.json'), 'w') as f:
        json.dump({'model': 'spec/Switchboard.tla (MC_X01_1..3)', 'tlc_distinct_states': states, 'histories_replayed': n_cases, 'observations_compared': n_obs,
                   'differences': dict(sigs), 'examples': example, 'wall_s': round(time.time() - t0, 1)}, f, indent=1)
    print(f'X01 Switchboard: TLC {states} distinct states; {n_cases} histories replayed, {n_obs} observations compared, {len(sigs)} kinds of difference, {time.time() - t0:.1f}s')
    return 0
