"""Binding self-test (./check selftest): shows that the specification is bound to the code in both directions.

 (i)  spec -> code: an emitted scenario whose expected number / discrete field is corrupted must be reported by the replay;
 (ii) code -> spec: a recorded event with one corrupted field must be rejected by TLC, the untouched event accepted;
 (iii) with --tier thorough: every seeded change under seeded/<id>/ must turn the named property's quick check red
       (tools/try_seed_wt.sh: the patch is applied to a scratch worktree, /repo is never touched);
 (iv) with --tier thorough: the equivalent changes of equivalent/patch.diff must leave every quick check silent;
 (v)  with --tier thorough: spec/mc/MC_Display - TLC compares Display!RenderVerdict (the judge of C18 / C14, with its shortcuts) with the plain
      definition of C18 on every value / precision / rendering of a bounded domain.
"""
from __future__ import annotations
import os, json, copy, subprocess, sys
from .common import VERIF, ensure_repo_import


def _first_sample(prop):
    with open(os.path.join(VERIF, 'evidence', f'{prop}.json')) as f:
        return json.load(f)['coverage']['samples']


def selftest(tier: str, seed: int) -> int:
    ensure_repo_import()
    ok = True

    def report(name, good):
        nonlocal ok
        print(('ok   ' if good else 'FAIL ') + name)
        ok = ok and good

    ctx = {'tier': 'quick', 'seed': seed}
    # ---- (i) corrupted expectations
    from .props import c01, c02, c07
    samples = [s for s in _first_sample('C01') if isinstance(s, dict) and 'br' in s]
    case = [s for s in samples if len(s['br']) >= 1][-1]
    report('C01 replay accepts the emitted scenario', not c01.replay(copy.deepcopy(case), ctx).mismatches)
    bad = copy.deepcopy(case)
    k = sorted(bad['expect']['phi'])[-1]
    bad['expect']['u'][0] = [[bad['expect']['u'][0][0][0] + 7 * bad['expect']['u'][0][0][1], bad['expect']['u'][0][0][1]], bad['expect']['u'][0][1]]
    report('C01 replay reports a corrupted expected voltage', bool(c01.replay(bad, ctx).mismatches))
    bad = copy.deepcopy(case)
    bad['br'][0]['n1'], bad['br'][0]['n2'] = bad['br'][0]['n2'], bad['br'][0]['n1']
    src_or_asym = any(x != 0 for x in (bad['expect']['u'][0][0][0], bad['expect']['u'][0][1][0]))
    if src_or_asym:
        report('C01 replay reports a swapped terminal order', bool(c01.replay(bad, ctx).mismatches))
    s7 = [s for s in _first_sample('C07') if isinstance(s, dict) and 'net' in s][0]
    report('C07 replay accepts the emitted scenario', not c07.replay(copy.deepcopy(s7), ctx).mismatches)
    bad = copy.deepcopy(s7)
    bad['net'] = bad['net'][:-1]
    report('C07 replay reports a dropped branch in the expectation', bool(c07.replay(bad, ctx).mismatches))
    # ---- (ii) corrupted events
    from .trace import judge
    ev = {'tid': 1, 'kind': 'float', 'm': 333, 'e10': -3, 'sgn': 1, 'p': 3, 'M': 3, 'inf': False, 'osgn': 1, 'digits': 333, 'ndec': 0, 'oexp': -3}
    v, _ = judge('Trace_C18.tla', [ev], shards=1, implicit_ok=True)
    report('Trace_C18 accepts "333m" for 0.333 at precision 3', v[1]['v'] == 'ok')
    for name, patch, want in (('a wrong digit', {'digits': 334}, 'inaccurate'), ('a wrong sign', {'osgn': -1}, 'sign'), ('an exponent that is not a multiple of three', {'oexp': -2, 'digits': 33, 'ndec': 0}, 'exp_not_multiple_of_3'),
                              ('infinity inside the range', {'inf': True}, 'inf_inside_range')):
        v, _ = judge('Trace_C18.tla', [dict(ev, **patch)], shards=1, implicit_ok=True)
        report(f'Trace_C18 rejects {name} ({v[1]["v"]})', v[1]['v'] == want)
    z = [[0, 1], [0, 1]]
    R = lambda n: {'f': 'N', 'imm': [[n, 1], [0, 1]], 'src': z}
    S = {'f': 'N', 'imm': z, 'src': z}
    V = {'f': 'N', 'imm': z, 'src': [[2, 1], [0, 1]]}
    br = [{'id': 1, 'n1': 1, 'n2': 0, 'e': V}, {'id': 2, 'n1': 1, 'n2': 2, 'e': R(3)}, {'id': 3, 'n1': 2, 'n2': 3, 'e': S}, {'id': 4, 'n1': 3, 'n2': 0, 'e': R(5)}]
    good_out = [{'id': 1, 'n1': 1, 'n2': 0, 'e': V}, {'id': 2, 'n1': 1, 'n2': 2, 'e': R(3)}, {'id': 4, 'n1': 2, 'n2': 0, 'e': R(5)}]
    e16 = {'tid': 1, 'op': 'remove_short_circuit_elements', 'br': br, 'ref': 0, 'keep': [], 'out': good_out, 'outref': 0}
    v, _ = judge('Trace_C16.tla', [e16], shards=1)
    report('Trace_C16 accepts a correct contraction', v[1]['v'] == 'ok')
    bad_out = copy.deepcopy(good_out)
    bad_out[2]['n1'] = 1          # merged with a node no short connects it to
    v, _ = judge('Trace_C16.tla', [dict(e16, out=bad_out)], shards=1)
    report(f'Trace_C16 rejects a wrong merge ({v[1]["v"]})', v[1]['v'] != 'ok')
    v, _ = judge('Trace_C16.tla', [dict(e16, out=good_out[:2])], shards=1)
    report(f'Trace_C16 rejects a dropped branch ({v[1]["v"]})', v[1]['v'] != 'ok')
    es = {'tid': 1, 'key': 'k', 'pre': 'a', 'post': 'a', 'res': 'r', 'iso': 'r'}
    v, _ = judge('Trace_Session.tla', [es, dict(es, tid=2, post='b'), dict(es, tid=3, res='q', iso='q'), dict(es, tid=4, iso='x')], shards=1, implicit_ok=True)
    report('Trace_Session: unchanged+equal accepted, mutated argument / changed repeat / isolation difference rejected',
           [v[i]['v'] for i in (1, 2, 3, 4)] == ['ok', 'argument_mutated', 'not_repeatable', 'result_differs_from_isolation'])
    # ---- (iii) seeded changes
    if tier == 'thorough':
        for sid in sorted(os.listdir(os.path.join(VERIF, 'seeded'))):
            meta = json.load(open(os.path.join(VERIF, 'seeded', sid, 'meta.json')))
            out = subprocess.run([os.path.join(VERIF, 'tools', 'try_seed_wt.sh'), f'seeded/{sid}', meta['property']], capture_output=True, text=True).stdout
            report(f'seeded change {sid} turns ./check {meta["property"]} red', 'VIOLATION property=' in out or 'violating scenarios' in out)
        # ---- (iv) equivalent changes: every check must stay silent
        out = subprocess.run([os.path.join(VERIF, 'tools', 'try_equivalent.sh')], capture_output=True, text=True).stdout
        lines = [l for l in out.splitlines() if ' exit=' in l]
        report(f'equivalent changes (equivalent/patch*.diff): {sum(1 for l in lines if " exit=0 " in l)} of {len(lines)} check runs silent', len(lines) >= 20 and len(lines) % 20 == 0 and all(' exit=0 ' in l for l in lines))
        # ---- (v) the judge of rendered numbers against the definition it implements (exhaustive on a bounded domain, ~6 min single-threaded)
        from .tlc import TLCRun
        run = TLCRun(module='MC_Display.tla', cfg='MC_Display.cfg', workers=4)
        for _ in run.lines():
            pass
        report(f'Display!RenderVerdict agrees with the definition of C18 on the bounded domain of MC_Display ({run.distinct} values of m)', run.ok and run.distinct > 0)
    print('selftest:', 'all bindings detect' if ok else 'FAILED')
    return 0 if ok else 2
