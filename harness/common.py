"""Shared plumbing of the conformance harness: import-path guard, exact-number
conversion, tolerances, naming schemes, result bookkeeping, evidence, known findings."""
from __future__ import annotations
import os, sys, json, hashlib, time, math, cmath, traceback
from fractions import Fraction
from dataclasses import dataclass, field
from typing import Any, Callable, Iterable

VERIF = os.path.dirname(os.path.dirname(os.path.abspath(__file__)))
REPO = os.environ.get('VERIF_REPO', '/repo')
REPO_SRC = os.environ.get('VERIF_REPO_SRC', os.path.join(REPO, 'src'))
GUARD = 'CIRCUITCALCULATOR_VERIF'
# where evidence and replays are written: /verif, except when a check is pointed at a scratch copy of the repository (seeded-change trials)
OUT = os.environ.get('VERIF_OUT', VERIF)


class MachineryError(Exception):
    """Something in the verification machinery itself failed (exit 2, never a VIOLATION)."""


def ensure_repo_import():
    """Put /repo/src first on sys.path and refuse to run against anything else."""
    if sys.path[0] != REPO_SRC:
        sys.path.insert(0, REPO_SRC)
    os.environ.setdefault('MPLBACKEND', 'Agg')
    import CircuitCalculator
    f = getattr(CircuitCalculator, '__file__', None) or list(CircuitCalculator.__path__)[0]
    if not os.path.abspath(f).startswith(os.path.abspath(REPO_SRC)):
        raise MachineryError(f'CircuitCalculator imported from {f}, not from {REPO_SRC}')
    return CircuitCalculator


# ----------------------------------------------------------------------------- numbers
def rat(x) -> Fraction:
    return Fraction(int(x[0]), int(x[1]))


def gauss(x) -> complex:
    return complex(float(rat(x[0])), float(rat(x[1])))


def gauss_frac(x) -> tuple[Fraction, Fraction]:
    return rat(x[0]), rat(x[1])


def fnum(x) -> float:
    return float(rat(x))


def close(got, want, scale: float = 0.0, rtol: float = 1e-9, atol_rel: float = 1e-12, atol: float = 0.0) -> bool:
    try:
        got = complex(got)
        want = complex(want)
    except Exception:
        return False
    if cmath.isnan(got) or cmath.isinf(got):
        return False
    return abs(got - want) <= atol + atol_rel * scale + rtol * abs(want)


# ----------------------------------------------------------------------------- naming schemes
# Nodes and element ids are integers in the specification.  A scheme maps them to strings.
# Schemes are adversarial for alphabetical index maps.
NODE_NAMES = [
    ['0', '1', '2', '3', '4', '5', '6', '7'],
    ['z', 'y', 'x', 'w', 'v', 'u', 't', 's'],                 # reverse sorting
    ['10', '9', '8', '2', '100', '1', '11', '0'],             # numeric traps ('10' < '9'), '0' is not node 0
    ['gnd', 'B', 'a', 'C', 'Ω', 'é', '_', 'A'],               # mixed case / non-ASCII
    ['n3', 'n1', 'n4', 'n0', 'n2', 'n7', 'n6', 'n5'],         # permuted
    ['1', '10', '100', '21', '210', '0', '2', '01'],          # labels that are substrings of one another ('1' in '10', '100', '21', ...)
]
# element id prefix per role; role = 'I' (current source), 'L' (inductor), 'V' (voltage source), 'P' (passive), 'C'
# six relative orders of I / L / V prefixes, interleaved with passive ones
ID_PREFIX = [
    {'I': 'Is', 'L': 'L', 'V': 'Vs', 'P': 'R', 'C': 'C'},     # the suite's own scheme
    {'I': 'Vq', 'L': 'Is', 'V': 'L', 'P': 'M', 'C': 'Z'},     # V < I? : 'Is' < 'L' < 'M' < 'Vq' < 'Z'  (L-role first)
    {'I': 'c', 'L': 'b', 'V': 'a', 'P': 'B', 'C': 'd'},       # V < L < I, passive uppercase before
    {'I': 'k2', 'L': 'k3', 'V': 'k1', 'P': 'k0', 'C': 'k4'},  # V < I < L
    {'I': 'x', 'L': 'X', 'V': 'xx', 'P': 'Xx', 'C': 'xX'},    # L < I < V  with case traps
    {'I': 'S9', 'L': 'S10', 'V': 'S1', 'P': 'S', 'C': 'S2'},  # numeric traps: 'S1' < 'S10' < 'S9'
    {'I': 'E', 'L': 'E', 'V': 'E', 'P': 'E', 'C': 'E', 'nested': True},   # ids that are substrings of one another: E1, E11, E111, ...
]
N_SCHEMES = len(NODE_NAMES) * len(ID_PREFIX)
# index of the i-th element within its prefix: a scheme number s + k * N_SCHEMES uses the k-th table.  The tables are complementary: two elements of one
# role at neighbouring positions (the canonical generators list equal kinds next to each other) are listed in alphabetical order under one table and
# against it under another, and the third lists every neighbouring pair of the first ten against the alphabet
ID_PERMS = [
    [5, 3, 8, 1, 9, 2, 7, 4, 6, 0, 11, 10],
    [4, 8, 3, 9, 1, 7, 2, 6, 0, 5, 10, 11],
    [9, 8, 7, 6, 5, 4, 3, 2, 1, 0, 11, 10],
]


@dataclass
class Naming:
    scheme: int = 0

    def node(self, n: int) -> str:
        # a FRESH string object on every call (equal, not identical): what a description parsed from text or built with f-strings gives;
        # code that compares identifiers with 'is' must not get away with it
        s = NODE_NAMES[self.scheme % len(NODE_NAMES)][int(n)]
        return (s + '\0')[:-1]

    def eid(self, i: int, role: str = 'P') -> str:
        # ids within one scheme sort by (prefix, index) in an order unrelated to listing order
        table = ID_PREFIX[(self.scheme // len(NODE_NAMES)) % len(ID_PREFIX)]
        pref = table[role]
        i = int(i)
        idx = ID_PERMS[(self.scheme // N_SCHEMES) % len(ID_PERMS)][i] if i < 12 else 100 + i
        if table.get('nested'):
            return pref + '1' * (idx + 1 if i < 12 else i + 1)
        return f'{pref}_{idx}'


def stable_hash(obj) -> int:
    return int(hashlib.sha256(json.dumps(obj, sort_keys=True, default=str).encode()).hexdigest()[:12], 16)


# ----------------------------------------------------------------------------- results
@dataclass
class Mismatch:
    what: str                     # observation point, e.g. "get_current(R1)"
    got: Any = None
    want: Any = None
    signature: str = ''           # class of the failure (used to match known findings)
    detail: str = ''

    def to_json(self):
        return {'what': self.what, 'got': repr(self.got), 'want': repr(self.want), 'signature': self.signature, 'detail': self.detail}


@dataclass
class CaseResult:
    case_id: str
    mismatches: list = field(default_factory=list)     # list[dict]
    tags: list = field(default_factory=list)
    observations: int = 0
    skipped: str = ''
    nontrivial: bool = True
    events: list = field(default_factory=list)     # observations for a trace specification to judge (direction B)


def exc_sig(e: BaseException) -> str:
    return type(e).__name__


def call(fn: Callable, *a, **k):
    """Run fn, returning (value, None) or (None, exception)."""
    try:
        return fn(*a, **k), None
    except Exception as e:    # noqa
        return None, e


# ----------------------------------------------------------------------------- known findings
def load_known_findings() -> list[dict]:
    p = os.path.join(VERIF, 'known_findings.json')
    if not os.path.exists(p):
        return []
    with open(p) as f:
        return json.load(f)


def open_signatures(prop: str) -> dict[str, dict]:
    return {k['signature']: k for k in load_known_findings() if k.get('property') == prop and k.get('status') == 'open'}


# ----------------------------------------------------------------------------- evidence
def write_evidence(prop: str, tier: str, seed: int, coverage: dict, wall_s: float, violations: int,
                   assumptions: list[str], level: str = 'model_checking') -> str:
    os.makedirs(os.path.join(OUT, 'evidence'), exist_ok=True)
    path = os.path.join(OUT, 'evidence', f'{prop}.json')
    doc = {
        'property_id': prop,
        'tier': tier,
        'seed': int(seed),
        'level': level,
        'coverage': coverage,
        'assumptions': assumptions,
        'wall_s': round(wall_s, 2),
        'violations': int(violations),
    }
    tmp = path + '.tmp'
    with open(tmp, 'w') as f:
        json.dump(doc, f, indent=1, default=str)
    os.replace(tmp, path)
    return path


def write_replay(prop: str, case: dict, mismatches: list[dict], extra: dict | None = None) -> str:
    d = os.path.join(OUT, 'replays', prop)
    os.makedirs(d, exist_ok=True)
    doc = {'property': prop, 'case': case, 'mismatches': mismatches}
    if extra:
        doc.update(extra)
    h = hashlib.sha256(json.dumps(case, sort_keys=True, default=str).encode()).hexdigest()[:16]
    path = os.path.join(d, f'{h}.json')
    with open(path, 'w') as f:
        json.dump(doc, f, indent=1, default=str)
    return path


ASSUMPTIONS = {
    'small_scope': 'Small-scope: defects of assembly, indexing, sign and dispatch show on networks with <= 4-5 nodes and values from small rational sets (32-bit exact arithmetic bound of TLC).',
    'binary64': 'Binary64 evaluation of the specification\'s exact expectations (a handful of + - * / and math.pi/exp/sqrt) is correct to 1e-15; comparison tolerance 1e-9 relative.',
    'tlc': 'TLC 1.8.0 evaluates the specification correctly; PrintT lines are atomic.',
    'import': 'The harness imports CircuitCalculator from /repo/src (asserted at start).',
    'zygote': 'A process forked from a zygote that has only imported the library counts as isolation.',
    'schemdraw': 'schemdraw 0.19 placement (at + direction + length, endpoints) yields the requested anchors; asserted per drawing before the library is judged.',
    'waveform_pl': 'Waveform time functions are piecewise linear between sampled fractions of the period.',
}
