"""Running TLC and consuming the scenarios / verdicts it prints."""
from __future__ import annotations
import os, re, json, subprocess, tempfile, shutil, signal, time
from typing import Iterator
from .common import VERIF, MachineryError

SPEC = os.path.join(VERIF, 'spec')
JAR = '/opt/veriftools/tla/tla2tools.jar'
DEPS = '/opt/veriftools/tla/CommunityModules-deps.jar'

def die_with_parent():
    """(child side) ask the kernel to kill this process when the harness that started it goes away - a check ended from outside
    (timeout, Ctrl-C) must not leave model checkers running"""
    try:
        import ctypes
        ctypes.CDLL('libc.so.6', use_errno=True).prctl(1, signal.SIGKILL)      # PR_SET_PDEATHSIG
    except Exception:
        pass


_STATS = re.compile(r'^(\d+) states generated, (\d+) distinct states found')
_SIMSTATS = re.compile(r'states checked|Progress\(')


class TLCRun:
    """One TLC process.  Iterate .lines() to get payload strings of <<"TAG", "json">> lines.
    After exhaustion .states / .distinct / .ok are set."""

    def __init__(self, module: str, cfg: str, workers: int = 16, simulate: str | None = None, depth: int | None = None,
                 seed: int | None = None, env: dict | None = None, subdir: str = 'mc', timeout: float | None = None,
                 coverage: bool = False, max_cases: int | None = None, heap: str = '6g', distinct_cases: bool = True):
        self.module = module
        self.cfg = cfg
        self.tmp = tempfile.mkdtemp(prefix='verif_tlc_')
        self.states = 0
        self.distinct = 0
        self.ok = False
        self.errors: list[str] = []
        self.max_cases = max_cases
        self.distinct_cases = distinct_cases
        self._seen = set()
        self.cut = False
        self.emitted = 0
        self.timeout = timeout
        self.other: list[str] = []
        wd = os.path.join(SPEC, subdir)
        # java.io.tmpdir: TLC unpacks its standard modules into a fresh directory there on every start; it goes away with the run
        cmd = ['java', '-XX:+UseParallelGC', '-Xss64m', f'-Xmx{heap}', f'-Djava.io.tmpdir={self.tmp}', f'-DTLA-Library={SPEC}{os.pathsep}{os.path.join(SPEC, "mc")}{os.pathsep}{os.path.join(SPEC, "trace")}',
               '-cp', f'{JAR}:{DEPS}', 'tlc2.TLC', '-workers', str(workers), '-metadir', os.path.join(self.tmp, 'meta'),
               '-noGenerateSpecTE', '-config', cfg]
        if simulate is not None:
            cmd += ['-simulate', simulate]
            if depth is not None:
                cmd += ['-depth', str(depth)]
        if seed is not None:
            cmd += ['-seed', str(seed)]
        if coverage:
            cmd += ['-coverage', '1']
        cmd += [module]
        e = dict(os.environ)
        e.pop('JAVA_TOOL_OPTIONS', None)
        if env:
            e.update(env)
        self.cmd = cmd
        self.t0 = time.time()
        self.proc = subprocess.Popen(cmd, cwd=wd, stdout=subprocess.PIPE, stderr=subprocess.STDOUT, text=True, env=e,
                                     bufsize=1 << 20, start_new_session=True, preexec_fn=die_with_parent)
        # watchdog: a TLC process that prints nothing for a long time is ended (observed once: a simulation shard went idle);
        # what it emitted before stays valid, the run is marked 'stalled'
        self.last_activity = time.time()
        self.stalled = False
        self.simulating = simulate is not None
        self.thread_died = None
        self.timed_out = False
        self.stall_after = 600 if simulate is None else 60
        import threading

        def watchdog():
            while self.proc.poll() is None:
                time.sleep(5)
                if time.time() - self.last_activity > self.stall_after and self.proc.poll() is None:
                    self.stalled = True
                    self.cut = True
                    try:
                        os.killpg(self.proc.pid, signal.SIGKILL)
                    except Exception:
                        pass
                    return
        threading.Thread(target=watchdog, daemon=True).start()

    def lines(self, tags=('CASE',)) -> Iterator[tuple[str, str]]:
        n = 0
        prefix = {t: f'<<"{t}", ' for t in tags}
        try:
            for line in self.proc.stdout:
                if not (self.simulating and line.startswith('Progress')):      # the once-a-minute progress report of an idle simulator is not activity
                    self.last_activity = time.time()
                line = line.rstrip('\n')
                hit = False
                for t, p in prefix.items():
                    if line.startswith(p) and line.endswith('>>'):
                        hit = True
                        body = line[len(p):-2]
                        try:
                            payload = json.loads(body) if body.startswith('"') else body
                        except Exception as ex:
                            raise MachineryError(f'unparsable TLC line: {line[:200]}') from ex
                        if self.max_cases is not None and self.distinct_cases:
                            hh = hash(body)
                            if hh in self._seen:
                                break
                            self._seen.add(hh)
                        n += 1
                        self.emitted = n
                        yield t, payload
                        break
                if hit:
                    if self.max_cases is not None and n >= self.max_cases:
                        self.cut = True
                        break
                    continue
                m = _STATS.match(line)
                if m:
                    self.states = int(m.group(1))
                    self.distinct = int(m.group(2))
                if line.startswith('Exception in thread') or 'StackOverflowError' in line or 'OutOfMemoryError' in line:
                    self.thread_died = line
                if line.startswith('Error:') or 'Invariant' in line and 'violated' in line or 'Fatal' in line or 'overflow' in line.lower():
                    self.errors.append(line)
                if line.startswith('Progress(') or 'states generated' in line or 'Model checking completed' in line or 'Finished' in line:
                    self.other.append(line)
                elif len(self.other) < 400 and (self.errors or line.startswith('State ') or line.startswith('/\\') or '=' in line[:40]):
                    self.other.append(line)
                if self.timeout and time.time() - self.t0 > self.timeout:
                    self.cut = True
                    self.timed_out = True
                    break
        finally:
            self.close()

    def close(self):
        if self.proc.poll() is None:
            if self.cut:
                try:
                    os.killpg(self.proc.pid, signal.SIGKILL)
                except Exception:
                    pass
            try:
                self.proc.wait(timeout=30 if self.cut else None)
            except Exception:
                pass
        rc = self.proc.returncode
        self.ok = (rc == 0 and not self.errors) or (self.cut and not self.errors)
        self.rc = rc
        shutil.rmtree(self.tmp, ignore_errors=True)

    def require_ok(self):
        if not self.ok:
            raise MachineryError(f'TLC failed (rc={self.rc}) on {self.module}/{self.cfg}:\n' + '\n'.join(self.errors[:20] + self.other[-40:]))


def sany(path: str) -> bool:
    r = subprocess.run(['java', f'-DTLA-Library={SPEC}{os.pathsep}{os.path.join(SPEC, "mc")}{os.pathsep}{os.path.join(SPEC, "trace")}', '-cp', f'{JAR}:{DEPS}', 'tla2sany.SANY', path],
                       capture_output=True, text=True, cwd=os.path.dirname(path))
    out = r.stdout + r.stderr
    return r.returncode == 0 and 'rror' not in out.replace('Semantic errors', 'Semantic err0rs') or ('*** Errors' not in out and 'Fatal' not in out and 'Could not' not in out and r.returncode == 0)
