"""Realising drawing programs of the specification with the real schematic element classes."""
from __future__ import annotations
import math
import matplotlib
matplotlib.use('Agg')
from .common import Naming, rat, gauss, ensure_repo_import, MachineryError
from .circbuild import f as fl, phase_of

ensure_repo_import()
from CircuitCalculator.SimpleCircuit import Elements as elm      # noqa: E402

PITCH = 3.0
LABEL_NAMES = ['A', 'n7', 'Ω', 'out']


def element_name(naming: Naming, item_id: int, k: str) -> str:
    role = 'V' if k in ('V', 'ACV', 'CV', 'RectV', 'TriV', 'SawV', 'lline') else 'I' if k in ('I', 'ACI', 'CI', 'RectI', 'TriI', 'SawI') else 'L' if k == 'L' else 'C' if k == 'C' else 'P'
    return naming.eid(item_id, role)


def make_symbol(item: dict, comp: dict | None, name: str):
    """the schematic element for one placement (not yet positioned)"""
    k, rev, deg = item['k'], item['rev'], item['deg']
    if k == 'wire':
        return elm.Line()
    v = comp['v']
    if k == 'R':
        return elm.Resistor(R=fl(v['R']), name=name)
    if k == 'G':
        return elm.Conductance(G=fl(v['G']), name=name)
    if k == 'Z':
        return elm.Impedance(Z=complex(fl(v['R']), fl(v['X'])), name=name)
    if k == 'C':
        return elm.Capacitor(C=fl(v['C']), name=name)
    if k == 'L':
        return elm.Inductance(L=fl(v['L']), name=name)
    if k == 'lamp':
        return elm.Lamp(V_ref=fl(v['V_ref']), P_ref=fl(v['P']), name=name)
    if k == 'sw_open':
        return elm.Switch(name=name, state=elm.SwitchState.OPEN)
    if k == 'sw_closed':
        return elm.Switch(name=name, state=elm.SwitchState.CLOSED)
    if k == 'lline':
        return elm.LabeledLine(name=name, reverse=rev)
    if k == 'V':
        return elm.VoltageSource(name=name, V=fl(v['V']), reverse=rev)
    if k == 'I':
        return elm.CurrentSource(name=name, I=fl(v['I']), reverse=rev)
    if k == 'CV':
        return elm.ComplexVoltageSource(name=name, V=gauss(v['V']), reverse=rev)
    if k == 'CI':
        return elm.ComplexCurrentSource(name=name, I=gauss(v['I']), reverse=rev)
    phi = phase_of(v['u'])
    if deg:
        phi = math.degrees(phi)
    cls = {'ACV': elm.ACVoltageSource, 'ACI': elm.ACCurrentSource, 'RectV': elm.RectVoltageSource, 'TriV': elm.TriangleVoltageSource, 'SawV': elm.SawtoothVoltageSource,
           'RectI': elm.RectCurrentSource, 'TriI': elm.TriangleCurrentSource, 'SawI': elm.SawtoothCurrentSource}[k]
    if k.endswith('V'):
        return cls(V=fl(v['V']), w=fl(v['w']), phi=phi, name=name, deg=deg, reverse=rev)
    return cls(I=fl(v['I']), w=fl(v['w']), phi=phi, name=name, deg=deg, reverse=rev)


def place_fn(rot: int = 0, shift=(0.0, 0.0), scale: float = 1.0):
    def pt(p):
        if p >= 100:          # integer pairs encoded as 100*(y+50) + (x+50) (declarative programs)
            gx, gy = (p % 100) - 50, (p // 100) - 50
        else:
            gx, gy = p % 3, p // 3
        x, y = PITCH * scale * gx, PITCH * scale * gy
        for _ in range(rot % 4):
            x, y = -y, x
        return (x + shift[0], y + shift[1])
    return pt


def build_schematic(prog: list[dict], netlist: list[dict], naming: Naming, rot=0, shift=(0.0, 0.0), scale=1.0, split=False, order=None, gnd_name='0', int_labels=0,
                    probe=None, probe_after=()):
    """returns (schematic, names: item id -> element name, label_names: item id -> text).
    probe(d) is called on the drawing under construction after the placements whose position is in probe_after (a user who translates or
    solves while drawing)"""
    comp_of = {c['id']: c for c in netlist}
    pt = place_fn(rot, shift, scale)
    d = elm.Schematic(unit=PITCH * scale)
    names, label_names = {}, {}
    idxs = list(range(len(prog))) if order is None else list(order)
    nlabel = 0
    placed = []
    for pos, i in enumerate(idxs):
        if probe is not None and pos in probe_after:
            probe(d)
        it = prog[i]
        iid = i + 1
        k = it['k']
        if k == 'gnd':
            e = elm.Ground(name=gnd_name).at(pt(it['a']))
            d += e
            placed.append((e, it, None))
            continue
        if k == 'label':
            label_names[iid] = LABEL_NAMES[iid % len(LABEL_NAMES)] + str(iid)
            if int_labels:
                # user labels that are decimal integers, consecutive - the names the parser itself hands out to unlabelled nodes
                label_names[iid] = str(int_labels + nlabel)
                nlabel += 1
            e = elm.LabelNode(id_loc='N', name=label_names[iid]).at(pt(it['a']))
            d += e
            placed.append((e, it, None))
            continue
        pa, pb = pt(it['a']), pt(it['b'])
        if k == 'wire' and split:
            mid = ((pa[0] + pb[0]) / 2, (pa[1] + pb[1]) / 2)
            e1 = elm.Line().endpoints(pa, mid)
            e2 = elm.Line().endpoints(mid, pb)
            d += e1
            d += e2
            placed.append((e1, it, (pa, mid)))
            placed.append((e2, it, (mid, pb)))
            continue
        names[iid] = element_name(naming, iid, k) if k != 'wire' else ''
        e = make_symbol(it, comp_of.get(iid), names[iid]).endpoints(pa, pb)
        d += e
        placed.append((e, it, (pa, pb)))
    # the harness is responsible for the placement: every anchor must be where it was asked to be
    for e, it, ends in placed:
        if ends is None:
            continue
        s, t = e.absanchors['start'], e.absanchors['end']
        if abs(s.x - ends[0][0]) > 1e-6 or abs(s.y - ends[0][1]) > 1e-6 or abs(t.x - ends[1][0]) > 1e-6 or abs(t.y - ends[1][1]) > 1e-6:
            raise MachineryError(f'schemdraw did not place {it} at {ends}: {s} {t}')
    return d, names, label_names
