"""MANIFEST.setup_cmd: parse every specification module, byte-compile the harness, verify the import path."""
from __future__ import annotations
import os, sys, glob, subprocess, py_compile
from .common import VERIF, ensure_repo_import, MachineryError
from .tlc import SPEC, JAR, DEPS


def setup() -> int:
    ok = True
    for f in sorted(glob.glob(os.path.join(VERIF, 'harness', '**', '*.py'), recursive=True)):
        try:
            with open(f) as fh:
                compile(fh.read(), f, 'exec')
        except Exception as e:
            print('compile error', f, e)
            ok = False
    lib = os.pathsep.join([SPEC, os.path.join(SPEC, 'mc'), os.path.join(SPEC, 'trace')])
    mods = sorted(glob.glob(os.path.join(SPEC, '*.tla')) + glob.glob(os.path.join(SPEC, 'mc', '*.tla')) + glob.glob(os.path.join(SPEC, 'trace', '*.tla')))
    procs = []
    import tempfile, shutil
    jtmp = tempfile.mkdtemp(prefix='verif_sany_')          # SANY unpacks the standard modules into java.io.tmpdir on every start
    for m in mods:
        procs.append((m, subprocess.Popen(['java', f'-Djava.io.tmpdir={jtmp}', f'-DTLA-Library={lib}', '-cp', f'{JAR}:{DEPS}', 'tla2sany.SANY', m],
                                          cwd=os.path.dirname(m), stdout=subprocess.PIPE, stderr=subprocess.STDOUT, text=True)))
    for m, p in procs:
        out = p.communicate()[0]
        if p.returncode != 0 or '*** Errors' in out or 'Fatal' in out or 'Could not parse' in out:
            print('SANY failed on', m)
            print(out[-1500:])
            ok = False
    shutil.rmtree(jtmp, ignore_errors=True)
    try:
        cc = ensure_repo_import()
        print('CircuitCalculator from', cc.__path__ if hasattr(cc, '__path__') else cc.__file__)
    except MachineryError as e:
        print(e)
        ok = False
    print(f'setup: {len(mods)} TLA+ modules parsed, harness compiled:', 'ok' if ok else 'FAILED')
    return 0 if ok else 2
