from __future__ import annotations
import sys, os, argparse, traceback
from .common import MachineryError


def main(argv=None) -> int:
    ap = argparse.ArgumentParser(prog='check')
    ap.add_argument('prop')
    ap.add_argument('--tier', default=os.environ.get('VERIF_TIER', 'quick'), choices=['quick', 'thorough'])
    ap.add_argument('--replay', default=None)
    ap.add_argument('--seed', type=int, default=int(os.environ.get('VERIF_SEED', '20261003')))
    a = ap.parse_args(argv)
    try:
        if a.prop == 'setup':
            from .setup import setup
            return setup()
        if a.prop == 'selftest':
            from .selftest import selftest
            return selftest(a.tier, a.seed)
        if a.prop.upper() == 'X01':
            from .aux_switchboard import run
            return run(a.tier, a.seed)
        from .engine import run_check
        mod = f'harness.props.{a.prop.lower()}'
        return run_check(mod, a.tier, a.seed, a.replay)
    except MachineryError as e:
        print(f'MACHINERY FAILURE: {e}', file=sys.stderr)
        return 2
    except Exception:
        traceback.print_exc()
        print('MACHINERY FAILURE: unexpected exception in the harness', file=sys.stderr)
        return 2


if __name__ == '__main__':
    sys.exit(main())
