"""C05 - power is conserved and has the physically right sign.

The conservation / sign clauses are theorems TLC checks on the models (MC_C01: Tellegen on networks; MC_C02: Tellegen, resistor P = |I|^2 R >= 0,
inductor Q >= 0, capacitor Q <= 0 on circuits at every frequency).  The conformance part compares every get_power of the library with the
specification's V * conj(I) (RMS), half of it (peak), V * I (DC), v(t) * i(t) (time domain, transient)."""
from __future__ import annotations
import math
import numpy as np
from ..common import CaseResult, Naming, N_SCHEMES, stable_hash, gauss, rat, close, call, exc_sig, ensure_repo_import
from ..circbuild import build_circuit
from .c16 import items
from . import c02, c01

ensure_repo_import()
from CircuitCalculator.Circuit.solution import DCSolution, ComplexSolution, TimeDomainSolution, TransientSolution  # noqa: E402

PROP = 'C05'
RULE = ('scenarios = reachable networks of MC_C01 (network-level get_power) and circuits of MC_C02 (DC, peak, RMS and time-domain powers at every analysed frequency); '
        'distinct by TLC fingerprint; non-trivial = well posed and at least one power compared')


def models(tier, seed):
    if tier == 'quick':
        return [dict(module='MC_C02.tla', cfg='MC_C05_quick.cfg', batch=100), dict(module='MC_C01.tla', cfg='MC_C05_net.cfg', batch=200),
                dict(module='MC_C12.tla', cfg='MC_C03_dyn.cfg', batch=20)]
    return [dict(module='MC_C02.tla', cfg='MC_C05_quick.cfg', batch=100), dict(module='MC_C01.tla', cfg='MC_C05_net.cfg', batch=200),
            dict(module='MC_C12.tla', cfg='MC_C12_quick.cfg', batch=20),
            dict(module='MC_C02.tla', cfg='MC_C05_thorough.cfg', simulate='num=100000000', depth=4, seed=seed, max_cases=60000, shards=12, batch=50),
            dict(module='MC_C02.tla', cfg='MC_C05_sim.cfg', simulate='num=100000000', depth=5, seed=seed + 1, max_cases=30000, shards=12, batch=50),
            dict(module='MC_C01.tla', cfg='MC_C01_simc.cfg', simulate='num=100000000', depth=6, seed=seed + 2, max_cases=40000, shards=12, batch=100)]


def required_tags(tier):
    return ['network', 'circuit', 'peak', 'rms', 'dc', 'time_domain', 'k:capacitor', 'k:inductance', 'k:resistor', 'linear_src', 'transient', 'transient:requeried']


def replay(case, ctx):
    if 'br' in case:                      # network-level scenario of MC_C01
        r = c01.replay(case, ctx)
        r.tags = sorted(set(r.tags) | {'network'})
        # only the power observations are this property's; the others are C01's - keep them, they cannot disagree
        return r
    if 'A' in case:                       # dynamic circuit of MC_C12: transient powers
        return replay_transient(case, ctx)
    comps = case['comps']
    h = stable_hash(comps)
    r = CaseResult(case_id=f'{h:x}')
    tg = {'k:' + c['kind'] for c in comps} | {'circuit'}
    variants = case.get('schemes') or ([(0, 0, (0, 0, 0))] if h % 3 == 0 else [((h % (N_SCHEMES - 1)) + 1, (h >> 5) % 3 - 1, c02.UNITS3[(h >> 8) % len(c02.UNITS3)])])
    mism = r.mismatches
    any_ok = False
    for scheme, turns, units in variants:
        units = tuple(units)
        naming = Naming(scheme)
        zu, vu, wu = (10.0 ** x for x in units)
        ctxs = f'scheme={scheme} turns={turns} units={units}'
        built, e = call(build_circuit, comps, naming, turns, units)
        if e is not None:
            mism.append({'what': 'Circuit(...)', 'got': repr(e), 'want': 'accepted', 'signature': f'exc:construct:{exc_sig(e)}', 'detail': ctxs})
            continue
        circuit, ids = built
        ats = {rat(at['w']): at for _, at in items(case['at'])}
        for w, at in ats.items():
            if not at['ok']:
                continue
            any_ok = True
            obs = at['x']
            for peak in (True, False):
                tg.add('peak' if peak else 'rms')
                sol, e = call(ComplexSolution, circuit, w=float(w) * wu, peak_values=peak)
                what = f'ComplexSolution(w={float(w) * wu}, peak_values={peak})'
                if e is not None:
                    mism.append({'what': what, 'got': repr(e), 'want': 'solution', 'signature': f'exc:complex:{exc_sig(e)}', 'detail': ctxs})
                    continue
                factor = 1.0 if peak else 1 / math.sqrt(2)
                c02.compare_complex(sol, obs, comps, ids, naming, zu, vu, factor, mism, what, ctxs, r, power_factor=0.5 if peak else 1.0, sig='complex', w=float(w))
            if w == 0:
                tg.add('dc')
                sol, e = call(DCSolution, circuit)
                if e is not None:
                    mism.append({'what': 'DCSolution', 'got': repr(e), 'want': 'solution', 'signature': f'exc:dc:{exc_sig(e)}', 'detail': ctxs})
                else:
                    c02.compare_complex(sol, obs, comps, ids, naming, zu, vu, 1.0, mism, 'DCSolution', ctxs, r, power_factor=1.0, real_only=True, sig='dc')
        # time domain: p(t) = v(t) * i(t) with v, i the sums of the single-frequency peak phasors at the circuit's own frequencies
        freqs = sorted({rat(c['v']['w']) if 'w' in c['v'] else 0 for c in comps if c['kind'].endswith('source') and c['kind'] != 'complex_voltage_source'})
        if freqs and all(f in ats and ats[f]['ok'] for f in freqs):
            tg.add('time_domain')
            td, e = call(TimeDomainSolution, circuit, w_max=0.0)
            if e is not None:
                mism.append({'what': 'TimeDomainSolution', 'got': repr(e), 'want': 'solution', 'signature': f'exc:time:{exc_sig(e)}', 'detail': ctxs})
                continue
            ng = [c for c in comps if c['kind'] != 'ground']
            ts = np.array([0.0, 0.37, 1.0, 2.9, -1.3]) / wu
            for k, c in enumerate(ng):
                cid = ids[c['id']]
                v = sum((gauss(ats[f]['x']['u'][k]) * vu * np.exp(1j * float(f) * wu * ts)).real for f in freqs)
                i = sum((gauss(ats[f]['x']['i'][k]) * vu / zu * np.exp(1j * float(f) * wu * ts)).real for f in freqs)
                s_v, s_i = 0.0, 0.0
                for f in freqs:
                    a, b = c02.circuit_scales(comps, ats[f]['x'], zu, vu, float(f))
                    s_v += a
                    s_i += b
                got, e = call(lambda: np.array(td.get_power(cid)(ts), dtype=float))
                r.observations += len(ts)
                if e is not None:
                    mism.append({'what': f'TimeDomainSolution.get_power({cid!r})', 'got': repr(e), 'want': 'values', 'signature': f'exc:time:get_power:{exc_sig(e)}', 'detail': ctxs})
                    continue
                for j in range(len(ts)):
                    if not close(got[j], v[j] * i[j], s_v * s_i, rtol=1e-8):
                        mism.append({'what': f'TimeDomainSolution.get_power({cid!r})(t={ts[j]})', 'got': repr(got[j]), 'want': repr(v[j] * i[j]), 'signature': 'value:time:get_power', 'detail': ctxs})
                        break
    r.nontrivial = any_ok
    r.tags = sorted(tg)
    return r


def replay_transient(case, ctx):
    """transient results: reported power = v(t) * i(t) at every sample - for every element, in whatever order and however often the same
    solution object is asked - and the powers of all elements sum to zero at every sample (Tellegen on instantaneous values)"""
    comps = case['comps']
    h = stable_hash(comps)
    r = CaseResult(case_id=f'{h:x}')
    mism = r.mismatches
    tg = {'transient'}
    ng = [c for c in comps if c['kind'] != 'ground']
    src_ids = case['sources']
    A = np.array([[float(rat(x)) for x in row] for row in case['A']])
    eig = np.linalg.eigvals(A)
    lam = max(abs(eig)) if len(eig) else 1.0
    scheme = (h % (N_SCHEMES - 1)) + 1 if h % 2 else 0
    naming = Naming(scheme)
    ctxs = f'scheme={scheme}'
    built, e = call(build_circuit, comps, naming, 0, (0, 0, 0))
    if e is not None:
        mism.append({'what': 'Circuit(...)', 'got': repr(e), 'want': 'accepted', 'signature': f'exc:construct:{exc_sig(e)}', 'detail': ctxs})
        return r
    circuit, ids = built
    N = 60
    t = np.linspace(0, 6.0 / lam, N + 1)
    inputs = {}
    for q, sid in enumerate(src_ids):
        inputs[ids[sid]] = (lambda tt, q=q: (1.0 + 0.5 * q) * np.minimum(1.0, np.asarray(tt) * lam) * np.cos(0.7 * lam * np.asarray(tt) * q))
    sol, e = call(lambda: TransientSolution(circuit, tin=t, input=inputs))
    if e is not None:
        mism.append({'what': 'TransientSolution', 'got': repr(e), 'want': 'solution', 'signature': f'exc:transient:{exc_sig(e)}', 'detail': ctxs})
        return r

    def ask(fn, name):
        res, e = call(fn, name)
        if e is not None:
            mism.append({'what': f'TransientSolution.{fn.__name__}({name!r})', 'got': repr(e), 'want': 'series', 'signature': f'exc:transient:{fn.__name__}:{exc_sig(e)}', 'detail': ctxs})
            return None
        return np.array(res[1], dtype=float, copy=True)        # a private copy: what the library hands out may not change under later calls either

    total = np.zeros(N + 1)
    scale_p = 0.0
    complete = True
    for j, c in enumerate(ng):
        name = ids[c['id']]
        order = (h >> j) % 3
        # three interrogation orders of the same solution object; the power is asked twice in each
        if order == 0:
            p1 = ask(sol.get_power, name); v = ask(sol.get_voltage, name); i = ask(sol.get_current, name); p2 = ask(sol.get_power, name)
        elif order == 1:
            v = ask(sol.get_voltage, name); p1 = ask(sol.get_power, name); i = ask(sol.get_current, name); p2 = ask(sol.get_power, name)
        else:
            v = ask(sol.get_voltage, name); i = ask(sol.get_current, name); p1 = ask(sol.get_power, name); p2 = ask(sol.get_power, name)
        v2 = ask(sol.get_voltage, name)
        i2 = ask(sol.get_current, name)
        if any(x is None for x in (p1, p2, v, i, v2, i2)):
            complete = False
            continue
        tg.add('transient:requeried')
        want = v * i
        sc = max(np.max(np.abs(v)) * np.max(np.abs(i)), 1e-12)
        for label, got in (('first', p1), ('second', p2)):
            r.observations += len(got)
            if got.shape != want.shape or not np.allclose(got, want, rtol=1e-9, atol=1e-11 * sc):
                k = int(np.argmax(np.abs(got - want))) if got.shape == want.shape else -1
                mism.append({'what': f'TransientSolution.get_power({name!r}) ({label} query, order {order}) sample {k}', 'got': repr(got[:6]), 'want': repr(want[:6]),
                             'signature': f'transient:power:{label}_query', 'detail': ctxs})
        for label, a, b in (('voltage', v, v2), ('current', i, i2)):
            r.observations += len(a)
            if not np.array_equal(a, b):
                mism.append({'what': f'TransientSolution.get_{label}({name!r}) asked again after get_power', 'got': repr(b[:6]), 'want': repr(a[:6]),
                             'signature': f'transient:{label}:changed_by_queries', 'detail': ctxs})
        total += p1
        scale_p = max(scale_p, float(np.max(np.abs(want))))
    if complete and ng:
        r.observations += len(total)
        if not np.allclose(total, 0.0, atol=1e-8 * max(scale_p, 1e-12)):
            k = int(np.argmax(np.abs(total)))
            mism.append({'what': f'sum of the powers of all elements at sample {k}', 'got': repr(total[k]), 'want': '0', 'signature': 'transient:power_balance', 'detail': ctxs})
    r.tags = sorted(tg)
    return r
