"""C18 - displayed numbers are accurate to the stated precision (code -> spec: every rendered text is judged by TLC, Display!RenderVerdict)."""
from __future__ import annotations
import math, cmath, random, json
from ..common import CaseResult, ensure_repo_import, call, exc_sig
from ..render import parse_float_text
from ..trace import judge

ensure_repo_import()
from CircuitCalculator.Utils import ScientificFloat, ScientificComplex      # noqa: E402
from CircuitCalculator.SimpleCircuit import Display as dsp                   # noqa: E402

PROP = 'C18'
LEVEL = 'model_checking'
RULE = ('events = every p-digit decimal mantissa (p <= 3: 1..999) x every power of ten 10^-15..10^15 x both signs x precisions 1..6 x prefix tables (none, default, the '
        'tables of the Display helpers), plus the binary64 neighbours of those values, rounding-carry values (99.95, 999.5, ...), complex values in all four quadrants '
        '(Cartesian, polar rad/deg), and every Display.print_* helper; each rendered text is tokenised and judged by TLC (spec/Display.tla: sign, exponent multiple of 3, '
        'mantissa range, half a unit of the p-th digit with ties accepted, infinity only beyond the range); non-trivial = every event')
ASSUME = ['binary64', 'tlc', 'import']
DEFAULT_TABLE = {-12: 'p', -9: 'n', -6: 'u', -3: 'm', -1: 'c', 3: 'k', 6: 'M', 9: 'G', 12: 'T'}
TABLES = {
    'none': None,
    'default': DEFAULT_TABLE,
    'display': {-6: 'u', -3: 'm', 3: 'k'},
    'ohm': {-3: 'm', 3: 'k', 6: 'M', 9: 'G'},
    'farad': {-12: 'p', -9: 'n', -6: 'μ', -3: 'm'},
    'henry': {-9: 'n', -6: 'μ', -3: 'm'},
    'hz': {-3: 'm', 3: 'k', 6: 'M', 9: 'G', 12: 'T'},
}


def models(tier, seed):
    return []


def required_tags(tier):
    return ['float', 'neighbour', 'carry', 'complex:cartesian', 'complex:polar', 'helper:print_real', 'helper:print_sinosoidal', 'helper:print_active_power',
            'helper:print_resistance', 'helper:print_capacitance', 'helper:print_inductance', 'helper:print_impedance', 'table:none', 'table:display', 'inf', 'random']


def replay(case, ctx):      # replay of one recorded event: render again and judge again
    evs = [case['event']]
    text = render_event(case['render'])
    ev = build_event(1, case['render'], text)
    if ev is None:
        r = CaseResult('replay')
        r.mismatches.append({'what': json.dumps(case['render']), 'got': text, 'want': 'tokenisable text', 'signature': 'untokenisable'})
        return r
    verdicts, _ = judge('Trace_C18.tla', [ev], shards=1, implicit_ok=True)
    r = CaseResult('replay')
    v = verdicts[1]['v']
    if v != 'ok':
        r.mismatches.append({'what': json.dumps(case['render']), 'got': text, 'want': 'RenderVerdict = ok', 'signature': f'render:{v}'})
    return r


def value_of(rd):
    v = float(f"{rd['m']}e{rd['e10']}") * rd['sgn']
    nb = rd.get('nb', 0)
    if nb:
        v = math.nextafter(v, math.inf if nb > 0 else -math.inf)
    return v


_RENDERED = 0
_READOUT: list = []          # the settings of the previous rendering


def render_event(rd):
    v = value_of(rd)
    table = TABLES[rd['table']]
    kind = rd['kind']
    if kind == 'float':
        kw = dict(value=v, unit=rd['unit'], precision=rd['p'], use_exp_prefix=table is not None)
        if table is not None:
            kw['exp_prefixes'] = dict(table)
        global _RENDERED
        _RENDERED += 1
        prev = rd.get('readout_prev')
        if prev is None and _RENDERED % 3 == 0 and _READOUT:
            prev = _READOUT[0]
            rd['readout_prev'] = {k_: (v_ if k_ != 'exp_prefixes' else {str(a): b for a, b in v_.items()}) for k_, v_ in prev.items()}   # replayable
        if prev is not None:
            # a read-out that is updated: ONE ScientificFloat object (a mutable dataclass) that was rendered with other settings before gets
            # this value, unit, precision and table assigned and is rendered again
            pk = dict(prev)
            if 'exp_prefixes' in pk:
                pk['exp_prefixes'] = {int(a): b for a, b in pk['exp_prefixes'].items()}
            sf = ScientificFloat(**pk)
            str(sf)
            default_prefixes = dict(ScientificFloat(value=1.0).exp_prefixes)
            for k_, v_ in kw.items():
                setattr(sf, k_, v_)
            if 'exp_prefixes' not in kw:
                sf.exp_prefixes = default_prefixes
            _READOUT[:] = [kw]
            return str(sf)
        _READOUT[:] = [kw]
        return str(ScientificFloat(**kw))
    if kind == 'helper':
        fn = getattr(dsp, rd['fn'])
        if rd['fn'] in ('print_real', 'print_abs'):
            return fn(v, unit=rd['unit'], precision=rd['p'])
        if rd['fn'] == 'print_active_power':
            return fn(v, precision=rd['p'])
        return fn(v, precision=rd['p'])
    raise ValueError(kind)


def build_event(tid, rd, text):
    table = TABLES[rd['table']]
    unit = rd['unit']
    t = text
    sgn = rd['sgn']
    if rd['kind'] == 'helper':
        if rd['fn'] == 'print_abs':
            sgn = 1
        if rd['fn'] == 'print_active_power':
            # '33.3mW↑' : arrow = sign (down: absorbed, value > 0)
            if not t or t[-1] not in '↑↓':
                return None
            arrow = t[-1]
            t = t[:-1]
            pt = parse_float_text(t, 'W', DEFAULT_TABLE)
            if pt is None:
                return None
            pt['osgn'] = 1 if arrow == '↓' else -1
            return dict(tid=tid, kind='float', m=rd['m'], e10=rd['e10'], sgn=rd['sgn'], p=rd['p'], M=12, **pt)
    pt = parse_float_text(t, unit, table)
    if pt is None:
        return None
    M = 16 if table is None else max(table)
    return dict(tid=tid, kind='float', m=rd['m'], e10=rd['e10'], sgn=sgn, p=rd['p'], M=M, **pt)


def grid(tier, rng):
    """the render requests of this run"""
    out = []
    precisions = [1, 2, 3, 4, 5, 6]
    tables_float = ['none', 'default', 'display', 'ohm', 'farad', 'henry', 'hz']
    mantissas = list(range(1, 1000))
    for m in mantissas:
        for e10 in range(-15, 16):
            if m * 10.0 ** e10 > 1.0001e15 or m * 10.0 ** e10 < 0.9999e-15:
                continue
            combos = [(p, t) for p in precisions for t in tables_float]
            if tier == 'quick':
                # every (precision, table) pair is used, spread over the grid; a third of the grid per run keeps the quick check short
                k = (m * 31 + e10 + 15)
                combos = [combos[(k * 5 + j * 17) % len(combos)] for j in range(3)]
            for p, t in combos:
                out.append({'kind': 'float', 'm': m, 'e10': e10, 'sgn': 1 if (m + e10 + p) % 2 else -1, 'p': p, 'table': t, 'unit': ['', 'V', 'Ω', 'Hz'][(m + p) % 4]})
    # binary64 neighbours and rounding carries
    for m in [1, 5, 15, 25, 35, 45, 95, 99, 100, 105, 125, 995, 999, 9995, 9999, 99995, 999995, 9999995, 99999, 999999, 1005, 1995, 2005, 12345, 123456, 1234567]:
        for e10 in range(-15, 11):
            for p in precisions:
                for t in ['none', 'default', 'display']:
                    if m * 10.0 ** e10 > 1e15 or m * 10.0 ** e10 < 1e-15:
                        continue
                    for nb in (0, 1, -1):
                        out.append({'kind': 'float', 'm': m, 'e10': e10, 'sgn': 1, 'p': p, 'table': t, 'unit': 'A', 'nb': nb, 'tag': 'neighbour' if nb else 'carry'})
    # values beyond the range (infinity allowed only there)
    for e10 in range(13, 25):
        for p in (1, 3, 5):
            for t in ['none', 'default', 'display']:
                out.append({'kind': 'float', 'm': 2, 'e10': e10, 'sgn': 1 if e10 % 2 else -1, 'p': p, 'table': t, 'unit': 'V', 'tag': 'inf'})
    # random doubles elsewhere: 7-digit decimal mantissas (the judge works at <= 6 digits, so the decimal IS the value for its purposes)
    for _ in range(20000 if tier == 'quick' else 200000):
        m = rng.randrange(10 ** 6, 10 ** 7)
        e10 = rng.randrange(-21, 9)
        out.append({'kind': 'float', 'm': m, 'e10': e10, 'sgn': rng.choice([1, -1]), 'p': rng.randrange(1, 7), 'table': rng.choice(tables_float), 'unit': rng.choice(['', 'V', 'A']), 'tag': 'random'})
    # the Display helpers
    helpers = [('print_real', 'display', 'V'), ('print_abs', 'display', 'A'), ('print_active_power', 'default', 'W'), ('print_resistance', 'ohm', 'Ω'), ('print_conductance', 'ohm', 'S'),
               ('print_capacitance', 'farad', 'F'), ('print_inductance', 'henry', 'H')]
    for fn, t, unit in helpers:
        lo = {'farad': -14, 'henry': -11}.get(t, -8)
        hi = {'farad': 0, 'henry': 1, 'display': 5, 'default': 13}.get(t, 10)
        for m in [1, 2, 9, 10, 33, 47, 99, 100, 101, 333, 470, 999, 1234, 5678, 99995]:
            for e10 in range(lo - 3, hi - 1):
                for p in (1, 2, 3, 4):
                    out.append({'kind': 'helper', 'fn': fn, 'm': m, 'e10': e10, 'sgn': -1 if (fn in ('print_real', 'print_active_power') and (m + e10) % 2) else 1, 'p': p, 'table': t, 'unit': unit})
    return out


def complex_events(tier, rng, tid0):
    """ScientificComplex / print_complex / print_impedance / print_sinosoidal: each part is one event"""
    reqs, events = [], []
    tid = tid0
    mags = [(m, e) for m in (1, 3, 47, 125, 999, 2222) for e in range(-7, 3)]
    fails = []
    for (m1, e1) in mags:
        for (m2, e2) in mags[::7]:
            for sr in (1, -1):
                for si in (1, -1):
                    for p in (2, 3, 4):
                        z = complex(sr * float(f'{m1}e{e1}'), si * float(f'{m2}e{e2}'))
                        for mode in ('cartesian', 'polar_rad', 'polar_deg', 'impedance'):
                            if mode == 'cartesian':
                                text = dsp.print_complex(z, unit='V', precision=p)
                                table = TABLES['display']
                                unit = 'V'
                            elif mode == 'impedance':
                                text = dsp.print_impedance(z, precision=p)
                                table = TABLES['ohm']
                                unit = 'Ω'
                            else:
                                text = dsp.print_complex(z, unit='A', precision=p, polar=True, deg=(mode == 'polar_deg'))
                                table = TABLES['display']
                                unit = 'A'
                            rd = {'mode': mode, 'z': [z.real, z.imag], 'p': p, 'text': text}
                            parts = tokenise_complex(text, mode, unit, table, z, p, m1, e1, sr, m2, e2, si)
                            if parts is None or isinstance(parts, str):
                                fails.append(dict(rd, why='part_' + parts if isinstance(parts, str) else 'untokenisable'))
                                continue
                            for ev in parts:
                                tid += 1
                                ev['tid'] = tid
                                events.append(ev)
                                reqs.append(rd)
    # sinusoidal time-function labels: amplitude, frequency and phase are one event each
    for (m1, e1) in mags[::3]:
        for ph in (0.0, 0.7853981633974483, -2.1, 3.0, 1e-5):
            for w in (0.0, 10.0, 314.1592653589793, 2e4):
                for sin in (False, True):
                    for deg in (False, True):
                        for hertz in (False, True):
                            for p in (2, 3, 4):
                                z = cmath.rect(float(f'{m1}e{e1}'), ph)
                                text = dsp.print_sinosoidal(z, unit='V', precision=p, w=w, sin=sin, deg=deg, hertz=hertz)
                                rd = {'mode': 'sinusoid', 'z': [z.real, z.imag], 'p': p, 'text': text, 'w': w, 'sin': sin, 'deg': deg, 'hertz': hertz}
                                parts = tokenise_sinusoid(text, z, p, w, sin, deg, hertz, m1, e1)
                                if parts is None:
                                    fails.append(rd)
                                    continue
                                for ev in parts:
                                    tid += 1
                                    ev['tid'] = tid
                                    events.append(ev)
                                    reqs.append(rd)
    return reqs, events, fails


def bracket(x):
    """a positive float as (m, e10) with 9 significant digits"""
    e = math.floor(math.log10(x)) - 8
    return round(x / 10.0 ** e), e


def tokenise_sinusoid(text, z, p, w, sin, deg, hertz, m1, e1):
    """'1.41V' | '1.41V·cos(10.0/s·t+785e-3)' | '...·sin(2π·1.59Hz·t-45.0°)'"""
    table = TABLES['display']
    evs = []
    if '·' not in text:
        if w != 0:
            return None
        pt = parse_float_text(text, 'V', table)
        return None if pt is None else [dict(kind='float', m=m1, e10=e1, sgn=1, p=p, M=3, **pt)]
    if w == 0:
        return None
    head, rest = text.split('·', 1)
    pt = parse_float_text(head, 'V', table)
    if pt is None:
        return None
    evs.append(dict(kind='float', m=m1, e10=e1, sgn=1, p=p, M=3, **pt))
    fn = 'sin' if sin else 'cos'
    if not (rest.startswith(fn + '(') and rest.endswith(')')):
        return None
    inner = rest[len(fn) + 1:-1]
    if hertz:
        if not inner.startswith('2π·'):
            return None
        inner = inner[3:]
    if '·t' not in inner:
        return None
    ftxt, phtxt = inner.split('·t', 1)
    if hertz:
        pf_ = parse_float_text(ftxt, 'Hz', TABLES['hz'])
        fm, fe = bracket(w / 2 / math.pi)
        M = 12
    else:
        pf_ = parse_float_text(ftxt, '/s', None)
        fm, fe = bracket(w)
        M = 16
    if pf_ is None:
        return None
    evs.append(dict(kind='float', m=fm, e10=fe, sgn=1, p=p, M=M, **pf_))
    phase = cmath.phase(z) + (-math.pi / 2 if sin else 0)
    if phtxt == '':
        if abs(phase) > 1e-4:
            return None
        return evs
    if phtxt[0] not in '+-':
        return None
    osgn = 1 if phtxt[0] == '+' else -1
    pp = parse_float_text(phtxt[1:], '°' if deg else '', None)
    if pp is None or abs(phase) <= 1e-4:
        return None
    # the phase of a sinusoid is defined modulo a full turn: judge against the representative nearest to the displayed one
    shown = osgn * pp['digits'] * 10.0 ** (pp['oexp'] - pp['ndec'])
    turn = 360.0 if deg else 2 * math.pi
    ph = math.degrees(phase) if deg else phase
    ph += turn * round((shown - ph) / turn)
    if abs(ph) < 1e-12:
        return None
    pm, pe = bracket(abs(ph))
    pp['osgn'] = osgn * pp['osgn']
    evs.append(dict(kind='float', m=pm, e10=pe, sgn=1 if ph > 0 else -1, p=p, M=16, **pp))
    return evs


def exact_abs_bracket(z):
    """|z| as (m, e10) with 9 significant digits (the judge accepts ties, and p <= 6)"""
    a = abs(z)
    if a == 0:
        return 0, 0
    e = math.floor(math.log10(a)) - 8
    m = round(a / 10.0 ** e)
    return m, e


def tokenise_complex(text, mode, unit, table, z, p, m1, e1, sr, m2, e2, si):
    M = max(table)
    evs = []
    if mode in ('cartesian', 'impedance'):
        # forms: 'a', '-a', 'jb', '-jb', 'a+jb', 'a-jb', '-a+jb' (compact) or with blanks ' + ' (non compact)
        t = text.replace(' ', '')
        re_part, im_part, im_sign = None, None, 1
        if 'j' in t:
            idx = t.index('j')
            im_part = t[idx + 1:]
            head = t[:idx]
            if head.endswith('+'):
                head = head[:-1]
            elif head.endswith('-'):
                im_sign = -1
                head = head[:-1]
            re_part = head or None
        else:
            re_part = t
        small_im = abs(z.imag) < abs(z.real) * 1e-12 or (abs(z.imag) < 10.0 ** (min(table) - 0)) 
        if re_part is not None:
            pt = parse_float_text(re_part, unit, table)
            if pt is None:
                return None
            evs.append(dict(kind='float', m=m1, e10=e1, sgn=sr, p=p, M=M, **pt))
        if im_part is not None:
            pt = parse_float_text(im_part, unit, table)
            if pt is None:
                return None
            pt['osgn'] = im_sign * pt['osgn']
            evs.append(dict(kind='float', m=m2, e10=e2, sgn=si, p=p, M=M, **pt))
        # a part may be omitted only when it is below the smallest unit of the prefix table (it cannot be written with it)
        floor_ = 10.0 ** min(table)
        for part, missing in ((z.real, re_part is None), (z.imag, im_part is None)):
            if missing and abs(part) >= floor_:
                # the library's documented rule (FloatPrecision.is_zero, pinned by its own unit tests): a part whose p-th digit lies below the
                # smallest prefix of the table is treated as zero
                lib_rule = math.floor(math.log10(abs(part))) - p + 1 < min(table)
                return 'omitted_by_is_zero_rule' if lib_rule else 'omitted'
        return evs
    # polar: 'abs∠angle' or 'abs' when the angle is negligible
    if '∠' in text:
        a, ang = text.split('∠')
    else:
        a, ang = text, None
    pt = parse_float_text(a, unit, table)
    if pt is None:
        return None
    am, ae = exact_abs_bracket(z)
    evs.append(dict(kind='float', m=am, e10=ae, sgn=1, p=p, M=M, **pt))
    if ang is None and mode in ('polar_rad', 'polar_deg'):
        ang = '0.00°' if mode == 'polar_deg' else '0.0000'          # no angle written: judged as the angle 0
    if ang is not None:
        deg = ang.endswith('°')
        s = ang[:-1] if deg else ang
        try:
            val = float(s)
        except ValueError:
            return None
        nd = len(s.split('.')[1]) if '.' in s else 0
        true = math.degrees(cmath.phase(z)) if deg else cmath.phase(z)
        half_turn = 180.0 if deg else math.pi
        if abs(abs(true) - half_turn) < 1e-6 * half_turn:        # +pi and -pi are the same angle
            true = math.copysign(abs(true), -1.0 if s.startswith('-') else 1.0)
        # resolution of the angle format: degrees with 2 decimals and no angle at all up to 0.01 degree; radians with 4 decimals
        evs.append(dict(kind='angle', digits=int(round(abs(val) * 10 ** nd)), ndec=nd, osgn=-1 if s.startswith('-') else 1, a6=int(round(true * 1e6)),
                        floor2=20000 if deg else 100, m=1, e10=0, sgn=1, p=p, M=M, inf=False, oexp=0))
    return evs


def extra(tier, seed, ctx, pool):
    rng = random.Random(seed)
    reqs = grid(tier, rng)
    events, meta = [], {}
    tid = 0
    untok = []
    for rd in reqs:
        text, e = call(render_event, rd)
        tid += 1
        if e is not None:
            meta[tid] = (rd, None, f'exc:{exc_sig(e)}')
            continue
        ev = build_event(tid, rd, text)
        if ev is None:
            meta[tid] = (rd, text, 'untokenisable')
            continue
        meta[tid] = (rd, text, None)
        events.append(ev)
    creqs, cevents, cfails = complex_events(tier, rng, tid)
    for rd, ev in zip(creqs, cevents):
        meta[ev['tid']] = (rd, rd['text'], None)
    events += cevents
    verdicts, info = judge('Trace_C18.tla', events, shards=16, implicit_ok=True)
    counts = {}
    agg = {}
    for t, (rd, text, err) in meta.items():
        v = err or verdicts[t]['v']
        counts[v] = counts.get(v, 0) + 1
        tags = set()
        if 'mode' in rd:
            if rd['mode'] == 'sinusoid':
                tags.add('helper:print_sinosoidal')
            else:
                tags.add('complex:' + ('cartesian' if rd['mode'] in ('cartesian', 'impedance') else 'polar'))
            if rd['mode'] == 'impedance':
                tags.add('helper:print_impedance')
        else:
            tags.add('float' if rd['kind'] == 'float' else 'helper:' + rd['fn'])
            tags.add('table:' + rd['table'])
            if rd.get('tag'):
                tags.add(rd['tag'])
        r = CaseResult(case_id=f'ev{t}')
        r.observations = 1
        r.tags = sorted(tags)
        if v == 'skipped_out_of_arithmetic_range':      # not judged (32-bit arithmetic of the trace specification): neither pass nor violation
            r.skipped = v
            r.nontrivial = False
        elif v != 'ok':
            sub = rd.get('fn') or rd.get('mode') or 'ScientificFloat'
            r.mismatches.append({'what': f'{sub} {json.dumps(rd)}', 'got': repr(text), 'want': 'a text Display!RenderVerdict accepts', 'signature': f'render:{v}', 'detail': ''})
        yield (json.dumps({'render': rd, 'event': None}), r)
    for rd in cfails:
        r = CaseResult(case_id='cfail')
        r.observations = 1
        r.mismatches.append({'what': f'{rd["mode"]} {rd["z"]} p={rd["p"]}', 'got': repr(rd['text']), 'want': 'both parts rendered', 'signature': f'{rd.get("why", "untokenisable")}:complex', 'detail': ''})
        yield (json.dumps({'render': rd, 'event': None}), r)
    yield {'trace_validation': dict(info, verdicts=counts, module='Trace_C18.tla')}
