"""C08 - Fourier series of the built-in periodic waveforms are the true coefficients."""
from __future__ import annotations
import math, cmath, random
import numpy as np
from ..common import CaseResult, stable_hash, rat, gauss, close, call, exc_sig, ensure_repo_import
from .c16 import items

ensure_repo_import()
from CircuitCalculator.SignalProcessing import periodic_functions as pf  # noqa: E402

PROP = 'C08'
RULE = ('TLC: all six wave types x amplitudes of either sign x offsets x phases of -8..8 quarter turns x harmonic orders 0..NMax, closed form = jump-method '
        'coefficient of the shifted descriptor.  Replay: each (wave, amplitude, offset) x periods over decades x arbitrary phases (many turns): the time function '
        'against the descriptor at 64 fractions of the period, amplitude/phase/a/b/c for every order; non-trivial = every scenario')
ASSUME = ['waveform_pl', 'binary64', 'tlc', 'import']


def models(tier, seed):
    return [dict(module='MC_C08.tla', cfg=f'MC_C08_{tier}.cfg', batch=1)]


def required_tags(tier):
    return ['w:const', 'w:cos', 'w:sin', 'w:rect', 'w:tri', 'w:saw', 'A<0', 'off!=0', 'phase>turn', 'phase<0', 'lookup', 'offset_sweep']


def replay(case, ctx):
    w = case['w']
    A, off = float(rat(case['A'])), float(rat(case['off']))
    h = stable_hash([w, case['A'], case['off']])
    r = CaseResult(case_id=f'{h:x}')
    tg = {'w:' + w}
    if A < 0:
        tg.add('A<0')
    if off != 0:
        tg.add('off!=0')
    mism = r.mismatches
    rng = random.Random(ctx.get('seed', 0) * 1000003 + h)
    cls, e = call(pf.periodic_function, w)
    tg.add('lookup')
    r.observations += 1
    if e is not None or getattr(cls, 'wavetype', None) != w:
        mism.append({'what': f'periodic_function({w!r})', 'got': repr(e or cls), 'want': f'class with wavetype {w}', 'signature': 'lookup', 'detail': ''})
        r.tags = sorted(tg)
        return r
    harm = case['harm']
    harm = [v for _, v in sorted(((int(k), v) for k, v in (harm.items() if isinstance(harm, dict) else enumerate(harm))))]
    phases = [0.0, 0.3, -2.5, 7.1, -40.0, rng.uniform(-20, 20)]
    periods = [1.0, 2 * math.pi, 1e-3, 50.0]
    scales = [1.0, 1e3, 1e-6]
    combos = [(phases[(h + j) % len(phases)], periods[(h // 7 + j) % len(periods)], scales[(h // 31 + j) % len(scales)]) for j in range(3 if ctx.get('tier') != 'thorough' else 6)]
    combos.append((phases[3], 1.0, 1.0))
    combos.append((phases[4], 2 * math.pi, 1.0))
    for phi, T, sc in combos:
        if phi > 2 * math.pi:
            tg.add('phase>turn')
        if phi < 0:
            tg.add('phase<0')
        ctxs = f'phi={phi} T={T} scale={sc}'
        fn, e = call(lambda: cls(period=T, amplitude=A * sc, phase=phi, offset=off * sc))
        if e is not None:
            mism.append({'what': f'{cls.__name__}(...)', 'got': repr(e), 'want': 'waveform', 'signature': f'exc:construct:{exc_sig(e)}', 'detail': ctxs})
            continue
        amp_scale = (abs(A) + abs(off)) * sc
        # (i) the time function is the descriptor
        tf = fn.time_function
        for _, (s, val) in items(case['samples']):
            m = rng.randint(-3, 3)
            t = (float(rat(s)) - phi / (2 * math.pi) + m) * T
            got, e = call(lambda: float(np.asarray(tf(np.array([t]))).reshape(-1)[0]))
            r.observations += 1
            if e is not None or not close(got, float(rat(val)) * sc, amp_scale, rtol=1e-9, atol_rel=1e-9):
                mism.append({'what': f'{w}.time_function(fraction {float(rat(s))} of the shifted period)', 'got': repr(e or got), 'want': repr(float(rat(val)) * sc),
                             'signature': f'time_function:{w}', 'detail': ctxs})
                break
        for _, (cs, val) in items(case['trig']):
            theta = math.atan2(float(rat(cs[1])), float(rat(cs[0])))
            t = (theta - phi) * T / (2 * math.pi) + rng.randint(-2, 2) * T
            got, e = call(lambda: float(np.asarray(tf(np.array([t]))).reshape(-1)[0]))
            r.observations += 1
            if e is not None or not close(got, float(rat(val)) * sc, amp_scale, rtol=1e-9, atol_rel=1e-9):
                mism.append({'what': f'{w}.time_function(angle {theta})', 'got': repr(e or got), 'want': repr(float(rat(val)) * sc), 'signature': f'time_function:{w}', 'detail': ctxs})
                break
        # (ii) harmonic coefficients
        fs, e = call(pf.fourier_series, fn)
        if e is not None:
            mism.append({'what': 'fourier_series', 'got': repr(e), 'want': 'coefficients', 'signature': f'exc:fourier_series:{exc_sig(e)}', 'detail': ctxs})
            continue
        bad = 0
        for n, (k, coef, q) in enumerate(harm):
            c = float(rat(coef)) * sc * math.pi ** (-k)
            if n == 0:
                got, e = call(lambda: fs.amplitude(0) * math.cos(fs.phase(0)))
                r.observations += 1
                if e is not None or not close(got, c, amp_scale):
                    mism.append({'what': f'{w} amplitude(0)*cos(phase(0))', 'got': repr(e or got), 'want': repr(c), 'signature': f'harmonic0:{w}', 'detail': ctxs})
                continue
            H = c * cmath.exp(1j * (q * math.pi / 2 + n * phi))
            tol = dict(scale=amp_scale, rtol=1e-9, atol_rel=1e-11 * (1 + n * abs(phi)))
            checks = [
                ('amplitude*exp(j*phase)', lambda: fs.amplitude(n) * cmath.exp(1j * fs.phase(n)), H),
                ('a', lambda: fs.a(n), H.real),
                ('b', lambda: fs.b(n), -H.imag),
                ('c', lambda: fs.c(n), H / 2),
                ('c(-n)', lambda: fs.c(-n), (H / 2).conjugate()),
            ]
            for name, f, want in checks:
                got, e = call(f)
                r.observations += 1
                if e is not None or not close(got, want, **tol):
                    mism.append({'what': f'{w} {name} n={n}', 'got': repr(e or got), 'want': repr(want), 'signature': f'harmonic:{w}:{name}', 'detail': ctxs})
                    bad += 1
            if bad > 5:
                break
    # (iii) a sweep of the offset with type, amplitude, phase and period unchanged (Fourier!Mean: the order-0 harmonic is the offset, the
    # others do not depend on it): what was analysed before must not matter
    phi, T = phases[3], 1.0
    k1, coef1, q1 = harm[1]
    H1 = float(rat(coef1)) * math.pi ** (-k1) * cmath.exp(1j * (q1 * math.pi / 2 + phi))
    for off2 in (off, off + 1.5, -off - 0.75, off):
        tg.add('offset_sweep')
        ctxs = f'offset sweep: phi={phi} T={T} offset={off2}'
        got, e = call(lambda: pf.fourier_series(cls(period=T, amplitude=A, phase=phi, offset=off2)))
        if e is not None:
            mism.append({'what': 'fourier_series', 'got': repr(e), 'want': 'coefficients', 'signature': f'exc:fourier_series:{exc_sig(e)}', 'detail': ctxs})
            continue
        fs = got
        want0 = A if w == 'const' else off2
        for name, f, want in (('amplitude(0)*cos(phase(0))', lambda: fs.amplitude(0) * math.cos(fs.phase(0)), want0),
                              ('c(1)', lambda: fs.c(1), H1 / 2)):
            got, e = call(f)
            r.observations += 1
            if e is not None or not close(got, want, abs(A) + abs(off2), rtol=1e-9, atol_rel=1e-11):
                mism.append({'what': f'{w} {name} after other offsets', 'got': repr(e or got), 'want': repr(want), 'signature': f'harmonic0:{w}:sweep', 'detail': ctxs})
    r.tags = sorted(tg)
    return r
