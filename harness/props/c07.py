"""C07 - every component becomes exactly one faithful network branch."""
from __future__ import annotations
import math
from ..common import CaseResult, Naming, N_SCHEMES, stable_hash, gauss, rat, close, call, exc_sig, ensure_repo_import
from ..netbuild import project_network
from ..circbuild import build_circuit, f, pi_value
from .c04 import norm_elem

ensure_repo_import()
from CircuitCalculator.Circuit.circuit import transform_circuit, transform  # noqa: E402

PROP = 'C07'
LEVEL = 'model_checking'
RULE = ('scenarios = reachable states of MC_C07: every component constructor x parameter values (incl. 0) x analysis frequency (0, own, other, just inside/outside '
        'the resolution, harmonics and off-harmonics) x resolution x list position x ground placement; distinct by TLC fingerprint; non-trivial = every scenario '
        '(each is compared branch by branch)')
UNITS3 = [(0, 0, 0), (3, 0, 0), (-3, 3, 2), (0, -6, 3), (2, 1, -1), (6, -3, 6)]


def models(tier, seed):
    return [dict(module='MC_C07.tla', cfg=f'MC_C07_{tier}.cfg', batch=400)]


def required_tags(tier):
    ks = ['resistor', 'conductance', 'impedance', 'admittance', 'capacitor', 'inductance', 'lamp', 'resistive_load', 'short_circuit', 'dc_voltage_source',
          'dc_current_source', 'ac_voltage_source', 'ac_current_source', 'complex_voltage_source', 'complex_current_source', 'periodic_voltage_source', 'periodic_current_source']
    return ['k:' + k for k in ks] + ['on_frequency', 'off_frequency', 'harmonic>=2', 'ground:first', 'ground:last', 'ground:none', 'pos:1', 'pos:3', 'w=0']


def elem_matches(pe, se, zu, vu) -> bool:
    imm = gauss(se['imm'])
    src = pi_value(se['src'], se.get('pik', 0))
    if se['f'] == 'N':
        imm, src = imm * zu, src * vu
    else:
        imm, src = imm / zu, src * vu / zu
    a = norm_elem(pe['f'], pe['imm'], pe['src'])
    b = norm_elem(se['f'], imm, src)
    sc = max(abs(b[2]), abs(src) if b[0] == 'norton' else 0.0)
    return a[0] == b[0] and close(a[1], b[1], abs(b[1])) and close(a[2], b[2], sc)


def replay(case, ctx):
    comps, net_spec = case['comps'], case['net']
    h = stable_hash(case['comps'] + [case['w'], case['res']])
    r = CaseResult(case_id=f'{h:x}')
    test = [c for c in comps if c['id'] == 7][0]
    tg = {'k:' + test['kind'], f'pos:{case["pos"]}'}
    kinds = [c['kind'] for c in comps]
    tg.add('ground:none' if 'ground' not in kinds else ('ground:first' if kinds[0] == 'ground' else 'ground:last'))
    w, res = rat(case['w']), rat(case['res'])
    if w == 0:
        tg.add('w=0')
    if 'source' in test['kind']:
        e7 = [b for b in net_spec if b['id'] == 7][0]['e']
        on = e7['k'] not in ('short_circuit', 'open_circuit')
        tg.add('on_frequency' if on else 'off_frequency')
        if test['kind'].startswith('periodic') and on and w / rat(test['v']['w']) >= 2:
            tg.add('harmonic>=2')
    variants = case.get('schemes') or [(0, 0, (0, 0, 0))] if h % 3 == 0 else [((h % (N_SCHEMES - 1)) + 1, (h >> 5) % 3 - 1, UNITS3[(h >> 8) % len(UNITS3)])]
    if ctx.get('tier') == 'thorough' and 'schemes' not in case:
        variants = [(0, 0, (0, 0, 0)), ((h % (N_SCHEMES - 1)) + 1, (h >> 5) % 3 - 1, UNITS3[(h >> 8) % len(UNITS3)])]
    for scheme, turns, units in variants:
        units = tuple(units)
        naming = Naming(scheme)
        zu, vu, wu = (10.0 ** x for x in units)
        ctxs = f'scheme={scheme} turns={turns} units={units}'
        built, e = call(build_circuit, comps, naming, turns, units)
        if e is not None:
            r.mismatches.append({'what': 'Circuit(...)', 'got': repr(e), 'want': 'accepted', 'signature': f'exc:construct:{test["kind"]}:{exc_sig(e)}', 'detail': ctxs})
            continue
        circuit, ids = built
        r.observations += 1
        if circuit.ground_node != naming.node(case['ref']):
            r.mismatches.append({'what': 'Circuit.ground_node', 'got': circuit.ground_node, 'want': naming.node(case['ref']), 'signature': 'ground_node', 'detail': ctxs})
        wf, resf = float(w) * wu, float(res) * wu
        nets = []
        n1, e = call(transform_circuit, circuit, wf, resf)
        if e is not None:
            r.mismatches.append({'what': 'transform_circuit', 'got': repr(e), 'want': 'network', 'signature': f'exc:transform:{test["kind"]}:{exc_sig(e)}', 'detail': ctxs})
        else:
            nets.append(('transform_circuit', n1))
        n2, e = call(transform, circuit, [wf + 5 * resf + 1.0, wf], resf)
        if e is not None:
            if n1 is not None:
                r.mismatches.append({'what': 'transform', 'got': repr(e), 'want': 'networks', 'signature': f'exc:transform_list:{test["kind"]}:{exc_sig(e)}', 'detail': ctxs})
        else:
            nets.append(('transform[1]', n2[1]))
        for what, net in nets:
            r.observations += 1
            pn = project_network(net)
            problems = []
            if pn['ref'] != naming.node(case['ref']):
                problems.append(f'node_zero_label {pn["ref"]!r} != {naming.node(case["ref"])!r}')
            # one branch per non-ground component, matched by identifier (the order of the branch list is not part of the property)
            if sorted(b['id'] for b in pn['br']) != sorted(ids[b['id']] for b in net_spec):
                problems.append('branch ids: ' + repr([b['id'] for b in pn['br']]) + ' expected ' + repr([ids[b['id']] for b in net_spec]))
                sig = f'branches:{test["kind"]}'
            else:
                sig = ''
                by_id = {b['id']: b for b in pn['br']}
                for sb in net_spec:
                    pb = by_id[ids[sb['id']]]
                    if (pb['n1'], pb['n2']) != (naming.node(sb['n1']), naming.node(sb['n2'])):
                        problems.append(f'terminals of {pb["id"]}')
                        sig = sig or 'terminals'
                    if not elem_matches(pb, sb['e'], zu, vu):
                        problems.append(f'element {pb["id"]}: got f={pb["f"]} imm={pb["imm"]} src={pb["src"]}, expected {sb["e"]["f"]} imm={gauss(sb["e"]["imm"])} src={pi_value(sb["e"]["src"], sb["e"].get("pik", 0))}')
                        ck = [c for c in comps if c['id'] == sb['id']][0]['kind']
                        sig = sig or f'element:{ck}'
            if problems:
                r.mismatches.append({'what': what, 'got': '; '.join(problems), 'want': 'NetAt(circuit, w, res)', 'signature': sig or 'ref', 'detail': ctxs + f' w={wf} res={resf}'})
    r.tags = sorted(tg)
    return r
