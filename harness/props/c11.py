"""C11 - derived dynamics are passive and stable.

TLC establishes W*A + A^T*W <= 0 (exact principal minors) on the specification's state matrix for every circuit of MC_C10 and a non-positive real part for
every Gaussian-rational pole (MC_C12).  Conformance: the library's A is compared ENTRYWISE with that matrix in the state order the model publishes (capacitors then
inductors, each in the order of the value dictionaries) - no search over orderings, since a model with swapped inductance values would satisfy the inequality for a
permuted W.  Independently the stored energy of simulated free responses is recorded and judged by TLC (spec/trace/Trace_C11.tla)."""
from __future__ import annotations
import json
import numpy as np
from ..common import CaseResult, Naming, N_SCHEMES, stable_hash, rat, close, call, exc_sig, ensure_repo_import
from ..circbuild import build_circuit
from ..trace import judge
from . import c10, c12

ensure_repo_import()
from CircuitCalculator.Circuit.circuit import transform_circuit                                   # noqa: E402
from CircuitCalculator.Circuit import state_space_model as cssm                                   # noqa: E402
from CircuitCalculator.Network.NodalAnalysis.state_space_model import nodal_state_space_model     # noqa: E402

PROP = 'C11'
RULE = ('scenarios = every non-degenerate circuit of MC_C10 (positive R, C, L); the library\'s state matrix compared entrywise with the specification\'s, eigenvalues, and one '
        'simulated free response per scenario (energy sequence judged by Trace_C11); distinct by TLC fingerprint; non-trivial = every scenario')


def models(tier, seed):
    return [dict(module='MC_C10.tla', cfg=f'MC_C10_{tier}.cfg', batch=20), dict(module='MC_C10.tla', cfg='MC_C10_quick2.cfg', batch=20)] + ([dict(module='MC_C10.tla', cfg='MC_C10_quick3.cfg', batch=20)] if tier == 'thorough' else [dict(module='MC_C10.tla', cfg='MC_C10_light3.cfg', batch=20)])


def required_tags(tier):
    return ['states:1', 'states:2', 'inductors>=2', 'energy', 'scheme:other', 'listing_not_alphabetical', 'decade_units', 'reanalysed_with_other_values', 'integer_values']


def replay(case, ctx):
    comps = case['comps']
    h = stable_hash(comps)
    r = CaseResult(case_id=f'{h:x}')
    if ctx.get('tier') != 'thorough' and sum(1 for c in comps if c['kind'] != 'ground') >= 5 and sum(1 for c in comps if c['kind'] == 'capacitor') >= 2 and h % 4:
        r.skipped = 'sampled_out_in_quick_tier'
        r.nontrivial = False
        return r
    tg = {f'states:{min(len(case["states"]), 2)}'}
    ng = [c for c in comps if c['kind'] != 'ground']
    if sum(1 for c in ng if c['kind'] == 'inductance') >= 2:
        tg.add('inductors>=2')
    Aspec = np.array([[float(rat(x)) for x in row] for row in case['A']])
    n = Aspec.shape[0]
    # (scheme, decade units of impedance / voltage / angular frequency): the model must be right for element values over many decades
    # (kOhm - nF - MHz, mOhm - F, ...), where the entries of A span ten and more decades
    UNITS = [(6, 0, 0), (-5, 0, 3), (3, 0, 6), (0, 0, -3), (3, 2, 9)]
    variants = case.get('schemes') or [(0,), ((h % (N_SCHEMES - 1)) + 1 + N_SCHEMES * (1 + (h >> 13) % 2),), (((h >> 7) % N_SCHEMES) + N_SCHEMES * ((h >> 14) % 3), UNITS[(h >> 3) % len(UNITS)])]
    if 'schemes' not in case and (ctx.get('tier') == 'thorough' or h % 2):
        # the same circuit under the same names (scheme 0 was analysed first) with other capacitances / inductances only
        variants.append((0, (0, 0, [1, -2, 4][(h >> 2) % 3])))
    for var in variants:
        scheme = var[0]
        units = tuple(var[1]) if len(var) > 1 else (0, 0, 0)
        zu, vu, wu = (10.0 ** x for x in units)
        naming = Naming(scheme)
        if not c10.scheme_is_default_order(scheme):
            tg.add('scheme:other')
        if units != (0, 0, 0):
            tg.add('decade_units')
        if scheme == 0 and units != (0, 0, 0):
            tg.add('reanalysed_with_other_values')
        ctxs = f'scheme={scheme} units={units}'
        built, e = call(build_circuit, comps, naming, 0, units)
        if e is not None:
            r.mismatches.append({'what': 'Circuit(...)', 'got': repr(e), 'want': 'accepted', 'signature': f'exc:construct:{exc_sig(e)}', 'detail': ctxs})
            continue
        circuit, ids = built
        state_ids = [ids[s] for s in case['states']]
        reactive = [ids[c['id']] for c in ng if c['kind'] in ('capacitor', 'inductance')]
        if reactive != sorted(reactive):
            tg.add('listing_not_alphabetical')
        c_values = {ids[c['id']]: float(circuit[ids[c['id']]].value['C']) for c in ng if c['kind'] == 'capacitor'}
        l_values = {ids[c['id']]: float(circuit[ids[c['id']]].value['L']) for c in ng if c['kind'] == 'inductance'}
        assert list(c_values) + list(l_values) == state_ids
        # states in physical units: capacitor voltages scale with vu, inductor currents with vu / zu; time with 1 / wu
        sv = np.array([1.0] * len(c_values) + [1.0 / zu] * len(l_values))
        Awant = wu * Aspec * sv[:, None] / sv[None, :] if n else Aspec
        # value types: whole numbers are passed as Python ints (a user writes {'C1': 2, 'L1': 1}), the others as floats
        def typed(d):
            if all(float(v).is_integer() and abs(v) < 2 ** 53 for v in d.values()) and d:
                tg.add('integer_values')
                return {k: int(v) for k, v in d.items()}
            return dict(d)
        for name, fn in (('nodal_state_space_model', lambda: nodal_state_space_model(transform_circuit(circuit, w=0), c_values=typed(c_values), l_values=typed(l_values)).A),
                         ('state_space_model', lambda: cssm.state_space_model(circuit).A)):
            A, e = call(fn)
            r.observations += 1
            if e is not None:
                r.mismatches.append({'what': name, 'got': repr(e), 'want': 'model', 'signature': f'exc:{name}:{exc_sig(e)}', 'detail': ctxs})
                continue
            A = np.asarray(A, float)
            a0 = float(np.max(np.abs(Aspec))) if n else 1.0
            scale = wu * a0 * sv[:, None] / sv[None, :] if n else np.ones((0, 0))          # natural magnitude of each entry
            if A.shape != Aspec.shape or not all(close(A[i, j], Awant[i, j], scale[i, j], rtol=1e-8, atol_rel=1e-9) for i in range(n) for j in range(n)):
                r.mismatches.append({'what': f'{name}: state matrix in the published state order {state_ids}', 'got': repr(A.tolist()), 'want': repr(Awant.tolist()),
                                     'signature': f'state_matrix:{name}', 'detail': ctxs})
                continue
            An = A * sv[None, :] / sv[:, None] / wu                  # back to the units of the specification
            ev = np.linalg.eigvals(An)
            if np.max(ev.real) > 1e-9 * (1 + np.max(np.abs(ev))):
                r.mismatches.append({'what': f'{name}: eigenvalues', 'got': repr(ev), 'want': 'non-positive real parts', 'signature': 'unstable_pole', 'detail': ctxs})
            # W A + A^T W <= 0 on the library's own matrix (congruence-scaled to the units of the specification: definiteness is invariant)
            W = np.diag(list(c_values.values()) + list(l_values.values()))
            M = W @ A + A.T @ W
            Mn = M * sv[:, None] * sv[None, :] * zu
            if np.max(np.linalg.eigvalsh((Mn + Mn.T) / 2)) > 1e-9 * (1 + np.max(np.abs(Mn))):
                r.mismatches.append({'what': f'{name}: W A + A^T W', 'got': repr(M.tolist()), 'want': 'negative semidefinite', 'signature': 'not_passive', 'detail': ctxs})
        # ---- simulated free response: a pulse on every source, then zero
        eig = np.linalg.eigvals(Aspec)
        lam_max, lam_min = max(abs(eig)), min(abs(eig.real))
        if lam_min <= 0:
            continue
        npulse, N = 8, 80
        dt = 0.25 / lam_max / wu
        t = dt * np.arange(N + 1)
        m = len(case['sources'])
        U = np.zeros((N + 1, m))
        for q in range(m):
            U[1:npulse, q] = (1.0 + q) * vu          # (a current source's natural unit is vu / zu; any positive pulse will do)
        sol = c12.run_transient(circuit, ids, case['sources'], t, U, r.mismatches, ctxs + ' pulse')
        if sol is None:
            continue
        E = np.zeros(N + 1)
        ok = True
        for cid, C in c_values.items():
            v = c12.series(sol, 'u', cid, r.mismatches, ctxs)
            ok = ok and v is not None
            if v is not None:
                E += 0.5 * C * v ** 2
        for lid, L in l_values.items():
            i = c12.series(sol, 'i', lid, r.mismatches, ctxs)
            ok = ok and i is not None
            if i is not None:
                E += 0.5 * L * i ** 2
        if ok:
            tg.add('energy')
            free = E[npulse + 1:]
            if not np.all(np.isfinite(E)):
                r.mismatches.append({'what': 'stored energy of the simulated free response', 'got': repr(E[:12]), 'want': 'finite and non-increasing', 'signature': 'energy:not_finite', 'detail': ctxs})
                continue
            top = float(np.max(E)) or 1.0
            r.events.append({'case': h, 'scheme': scheme, 'e': [int(round(x / top * 1e9)) for x in free]})
    r.tags = sorted(tg)
    return r


def post(events, tier, seed, ctx):
    evs = [dict(ev, tid=k + 1) for k, ev in enumerate(events)]
    verdicts, info = judge('Trace_C11.tla', [{'tid': e['tid'], 'e': e['e']} for e in evs], shards=8, implicit_ok=True)
    counts = {}
    for e in evs:
        v = verdicts[e['tid']]['v']
        counts[v] = counts.get(v, 0) + 1
        r = CaseResult(case_id=f'energy{e["tid"]}')
        r.observations = len(e['e'])
        r.tags = ['energy_judged']
        if v.startswith('skipped'):
            r.skipped = v
        elif v != 'ok':
            r.mismatches.append({'what': 'stored energy of the simulated free response', 'got': repr(e['e'][:20]), 'want': 'non-increasing', 'signature': f'energy:{v}', 'detail': f'scheme={e["scheme"]}'})
        yield (json.dumps({'energy_event': e}), r)
    yield {'trace_validation': dict(info, verdicts=counts, module='Trace_C11.tla')}
