"""C02 - DC/AC phasor analysis of component circuits is exact at every frequency (also the circuit-level part of C05)."""
from __future__ import annotations
import math
from ..common import CaseResult, Naming, N_SCHEMES, stable_hash, gauss, rat, close, call, exc_sig, ensure_repo_import
from ..circbuild import build_circuit
from .c16 import items

ensure_repo_import()
from CircuitCalculator.Circuit.solution import DCSolution, ComplexSolution  # noqa: E402

PROP = 'C02'
RULE = ('scenarios = reachable circuits of MC_C02 (RLC, G/Z/Y, lamps/loads, DC and AC sources with and without internal R/G, optional ground component) x analysis '
        'frequencies (0, source frequencies, others, just inside/outside the resolution); distinct by TLC fingerprint; non-trivial = well posed at >= 1 frequency')
UNITS3 = [(0, 0, 0), (3, 0, 0), (-3, 3, 0), (0, -6, 0), (2, 1, 0), (6, -3, 0)]
POWER = False


def models(tier, seed):
    ms = [dict(module='MC_C02.tla', cfg='MC_C02_quick.cfg', batch=100),
          dict(module='MC_C02.tla', cfg='MC_C02_high.cfg', batch=100)]     # sources at 1000 rad/s probed just inside / outside the (absolute) resolution
    if tier == 'thorough':
        # random walks over the full component alphabet, all frequencies and ground placements (exhaustive enumeration of that model leaves exact
        # 32-bit arithmetic; a walk that does so ends and is restarted with a fresh seed)
        ms += [dict(module='MC_C02.tla', cfg='MC_C02_thorough.cfg', simulate='num=100000000', depth=4, seed=seed, max_cases=60000, shards=12, batch=50),
               dict(module='MC_C02.tla', cfg='MC_C02_sim.cfg', simulate='num=100000000', depth=5, seed=seed + 1, max_cases=30000, shards=12, batch=50)]
    return ms


def required_tags(tier):
    return ['w=0', 'w>0', 'near_resolution', 'k:capacitor', 'k:inductance', 'k:lamp', 'k:ac_voltage_source', 'k:dc_voltage_source', 'k:ac_current_source',
            'k:dc_current_source', 'src_off_frequency', 'near_resolution_of_high_frequency_source', 'ground', 'no_ground', 'peak', 'rms', 'dc']


def impedances(comps, zu, w):
    """magnitudes of the finite non-zero impedances of a circuit at angular frequency w (spec units of w)"""
    zs = []
    for c in comps:
        v, k = c['v'], c['kind']
        z = None
        if k == 'resistor':
            z = float(rat(v['R']))
        elif k == 'conductance':
            z = 1 / float(rat(v['G'])) if rat(v['G']) else None
        elif k == 'impedance':
            z = abs(complex(float(rat(v['R'])), float(rat(v['X']))))
        elif k == 'admittance':
            y = abs(complex(float(rat(v['G'])), float(rat(v['B']))))
            z = 1 / y if y else None
        elif k == 'capacitor':
            y = w * float(rat(v['C']))
            z = 1 / y if y else None
        elif k == 'inductance':
            z = w * float(rat(v['L']))
        elif k in ('lamp', 'resistive_load'):
            z = float(rat(v['V_ref'])) ** 2 / float(rat(v['P'])) if rat(v['P']) else None
        elif 'R' in v and not isinstance(v['R'][0], list):
            z = float(rat(v['R']))
        elif 'G' in v and not isinstance(v['G'][0], list) and rat(v['G']):
            z = 1 / float(rat(v['G']))
        if z:
            zs.append(z * zu)
    return zs


def circuit_scales(comps, obs, zu, vu, w=0.0):
    """natural magnitudes of voltage and current in a circuit scenario at angular frequency w (spec units)"""
    s_v = max([abs(gauss(x)) for _, x in items(obs['phi'])] + [abs(gauss(x)) for x in obs['u']] + [0.0]) * vu
    s_i = max([abs(gauss(x)) for x in obs['i']] + [0.0]) * vu / zu
    for c in comps:
        v = c['v']
        if 'V' in v:
            s_v = max(s_v, abs(gauss(v['V']) if isinstance(v['V'][0], list) else float(rat(v['V']))) * vu)
        if 'I' in v:
            s_i = max(s_i, abs(gauss(v['I']) if isinstance(v['I'][0], list) else float(rat(v['I']))) * vu / zu)
    zs = impedances(comps, zu, w)
    if zs:
        s_v = max(s_v, s_i * max(zs))
        s_i = max(s_i, s_v / min(zs))
    return s_v, s_i


def compare_complex(sol, obs, comps, ids, naming, zu, vu, factor, mism, what, ctxs, r, power_factor=None, real_only=False, sig='complex', w=0.0):
    s_v, s_i = circuit_scales(comps, obs, zu, vu, w)
    s_v, s_i = s_v * abs(factor), s_i * abs(factor)
    ng = [c for c in comps if c['kind'] != 'ground']

    def chk(name, fn, arg, want, scale):
        r.observations += 1
        got, e = call(fn, arg)
        if real_only:
            want = complex(want).real
        if e is not None:
            mism.append({'what': f'{what}.{name}({arg!r})', 'got': repr(e), 'want': repr(want), 'signature': f'exc:{sig}:{name}:{exc_sig(e)}', 'detail': ctxs})
        elif not close(got, want, scale):
            mism.append({'what': f'{what}.{name}({arg!r})', 'got': repr(got), 'want': repr(want), 'signature': f'value:{sig}:{name}', 'detail': ctxs})

    for n, v in items(obs['phi']):
        chk('get_potential', sol.get_potential, naming.node(int(n)), gauss(v) * vu * factor, s_v)
    for k, c in enumerate(ng):
        cid = ids[c['id']]
        u = gauss(obs['u'][k]) * vu * factor
        i = gauss(obs['i'][k]) * vu / zu * factor
        chk('get_voltage', sol.get_voltage, cid, u, s_v)
        chk('get_current', sol.get_current, cid, i, s_i)
        if power_factor is not None:
            if real_only:
                p = u.real * i.real
            else:
                p = power_factor * u * i.conjugate()
            chk('get_power', sol.get_power, cid, p, s_v * s_i)


def replay(case, ctx):
    comps = case['comps']
    h = stable_hash(comps)
    r = CaseResult(case_id=f'{h:x}')
    tg = {'k:' + c['kind'] for c in comps}
    tg.add('ground' if any(c['kind'] == 'ground' for c in comps) else 'no_ground')
    variants = case.get('schemes') or ([(0, 0, (0, 0, 0))] if h % 3 == 0 else [((h % (N_SCHEMES - 1)) + 1, (h >> 5) % 3 - 1, UNITS3[(h >> 8) % len(UNITS3)])])
    if ctx.get('tier') == 'thorough' and 'schemes' not in case:
        variants = [(0, 0, (0, 0, 0)), ((h % (N_SCHEMES - 1)) + 1, (h >> 5) % 3 - 1, UNITS3[(h >> 8) % len(UNITS3)])]
    mism = r.mismatches
    any_ok = False
    for scheme, turns, units in variants:
        units = tuple(units)
        naming = Naming(scheme)
        zu, vu, wu = (10.0 ** x for x in units)
        ctxs = f'scheme={scheme} turns={turns} units={units}'
        built, e = call(build_circuit, comps, naming, turns, units)
        if e is not None:
            mism.append({'what': 'Circuit(...)', 'got': repr(e), 'want': 'accepted', 'signature': f'exc:construct:{exc_sig(e)}', 'detail': ctxs})
            continue
        circuit, ids = built
        for _, at in items(case['at']):
            if not at['ok']:
                continue
            any_ok = True
            w = rat(at['w'])
            wf = float(w) * wu
            near = w.denominator >= 100
            tg.add('near_resolution' if near else ('w=0' if w == 0 else 'w>0'))
            if near and w > 900 and any(c['kind'].startswith('ac') and rat(c['v']['w']) > 900 for c in comps):
                tg.add('near_resolution_of_high_frequency_source')
            for c in comps:
                if 'w' in c['v'] and c['kind'].startswith('ac') and abs(rat(c['v']['w']) - w) > rat(case['res']):
                    tg.add('src_off_frequency')
            obs = at['x']
            for peak in (True, False):
                tg.add('peak' if peak else 'rms')
                sol, e = call(ComplexSolution, circuit, w=wf, peak_values=peak)
                what = f'ComplexSolution(w={wf}, peak_values={peak})'
                if e is not None:
                    mism.append({'what': what, 'got': repr(e), 'want': 'solution', 'signature': f'exc:complex:{exc_sig(e)}', 'detail': ctxs})
                    continue
                factor = 1.0 if peak else 1 / math.sqrt(2)
                compare_complex(sol, obs, comps, ids, naming, zu, vu, factor, mism, what, ctxs, r,
                                power_factor=(0.5 if peak else 1.0) if POWER else None, sig='complex', w=float(w))
            if w == 0:
                tg.add('dc')
                sol, e = call(DCSolution, circuit)
                if e is not None:
                    mism.append({'what': 'DCSolution', 'got': repr(e), 'want': 'solution', 'signature': f'exc:dc:{exc_sig(e)}', 'detail': ctxs})
                else:
                    compare_complex(sol, obs, comps, ids, naming, zu, vu, 1.0, mism, 'DCSolution', ctxs, r, power_factor=1.0 if POWER else None, real_only=True, sig='dc')
    r.nontrivial = any_ok
    r.tags = sorted(tg)
    return r
