"""C04 - linearity and superposition of sources (library's own source-zeroing operations)."""
from __future__ import annotations
from ..common import CaseResult, Naming, N_SCHEMES, stable_hash, gauss, close, call, exc_sig, ensure_repo_import
from ..netbuild import build_network, UNITS, role_of, scales, project_network, make_element
from .c01 import tags_of

ensure_repo_import()
from CircuitCalculator.Network.NodalAnalysis.bias_point_analysis import nodal_analysis_bias_point_solver  # noqa: E402
from CircuitCalculator.Network import transformers as trf  # noqa: E402
from CircuitCalculator.Network.network import Network, Branch  # noqa: E402

PROP = 'C04'
RULE = ('scenarios = reachable well-posed networks of MC_C04 with >= 1 source; for each, the library\'s short_circuitify_voltage_sources / '
        'open_circuitify_current_sources are applied with every keep list of the configuration; distinct by TLC fingerprint; non-trivial = has a source')
FACTORS = [2, -1, 1j, 0.5 + 1j]


def models(tier, seed):
    if tier == 'quick':
        return [dict(module='MC_C04.tla', cfg='MC_C04_quick.cfg', batch=100)]
    return [dict(module='MC_C04.tla', cfg='MC_C04_thorough.cfg', batch=100)]


def required_tags(tier):
    return ['linear_src', 'k:voltage_source', 'k:current_source', 'keep:nonempty', 'sources>=2', 'zeroed:linear_v', 'zeroed:ideal_v', 'zeroed:ideal_i', 'zeroed:linear_i']


def solve_all(net, br, ids, naming, mism, what, ctxs):
    sol, e = call(nodal_analysis_bias_point_solver, net)
    if e is not None:
        mism.append({'what': what + ' solver', 'got': repr(e), 'want': 'solution', 'signature': f'exc:solve:{exc_sig(e)}', 'detail': ctxs})
        return None
    out = {'phi': {}, 'u': [], 'i': [], 'p': []}
    try:
        for n in sorted({b['n1'] for b in br} | {b['n2'] for b in br}):
            out['phi'][n] = complex(sol.get_potential(naming.node(n)))
        for b in br:
            out['u'].append(complex(sol.get_voltage(ids[b['id']])))
            out['i'].append(complex(sol.get_current(ids[b['id']])))
            out['p'].append(complex(sol.get_power(ids[b['id']])))
    except Exception as e:
        mism.append({'what': what + ' get_*', 'got': repr(e), 'want': 'value', 'signature': f'exc:get:{exc_sig(e)}', 'detail': ctxs})
        return None
    return out


def cmp_obs(got, ex, zu, vu, fac, br, mism, what, ctxs, sigk):
    phi = {int(n): gauss(v) * vu * fac for n, v in ex['phi'].items()}
    u = [gauss(v) * vu * fac for v in ex['u']]
    i = [gauss(v) * vu / zu * fac for v in ex['i']]
    p = [gauss(v) * vu * vu / zu * abs(fac) ** 2 for v in ex['p']]
    s_v, s_i, s_p = scales(br, [phi.values(), u], [i], zu, vu)
    s_v, s_i, s_p = max(s_v, s_v * abs(fac)), max(s_i, s_i * abs(fac)), max(s_p, s_p * abs(fac) ** 2)
    n = 0
    for k, w in phi.items():
        n += 1
        if not close(got['phi'][k], w, s_v):
            mism.append({'what': f'{what} get_potential(node {k})', 'got': repr(got['phi'][k]), 'want': repr(w), 'signature': f'value:{sigk}:get_potential', 'detail': ctxs})
    for name, g, w, s in (('get_voltage', got['u'], u, s_v), ('get_current', got['i'], i, s_i), ('get_power', got['p'], p, s_p)):
        for k in range(len(w)):
            n += 1
            if not close(g[k], w[k], s):
                mism.append({'what': f'{what} {name}(branch {k + 1})', 'got': repr(g[k]), 'want': repr(w[k]), 'signature': f'value:{sigk}:{name}', 'detail': ctxs})
    return n


def norm_elem(f, imm, src):
    """electrical normal form: an ideal voltage branch (Z = 0), an ideal current branch (Y = 0) or a Norton pair (Y, I)"""
    if f == 'N':
        if imm == 0:
            return ('vsrc', src, 0)
        return ('norton', 1 / imm, src / imm)
    if imm == 0:
        return ('isrc', src, 0)
    return ('norton', imm, src)


def same_elem(pe, se, zu, vu) -> bool:
    """library element (projection) vs specification element record, compared electrically: the library is free to
    represent a passive element as impedance Z or admittance 1/Z"""
    imm, src = gauss(se['imm']), gauss(se['src'])
    if se['f'] == 'N':
        imm, src = imm * zu, src * vu
    else:
        imm, src = imm / zu, src * vu / zu
    a = norm_elem(pe['f'], pe['imm'], pe['src'])
    b = norm_elem(se['f'], imm, src)
    return a[0] == b[0] and close(a[1], b[1], abs(b[1])) and close(a[2], b[2], abs(b[2]))


def replay(case, ctx):
    br, ref = case['br'], case['ref']
    h = stable_hash([br, ref])
    r = CaseResult(case_id=f'{h:x}')
    tg = tags_of(case)
    nsrc = sum(1 for b in br if b['e']['src'] != [[0, 1], [0, 1]])
    if nsrc >= 2:
        tg.add('sources>=2')
    variants = case.get('schemes') or [(0, 0, (0, 0)), ((h % (N_SCHEMES - 1)) + 1, (h >> 4) % 3, UNITS[(h >> 7) % len(UNITS)])]
    if 'schemes' not in case and ctx.get('tier') != 'thorough':
        variants = variants[:1] if h % 4 == 0 else variants[1:]
    for scheme, mode, units in variants:
        units = tuple(units)
        naming = Naming(scheme)
        zu, vu = 10.0 ** units[0], 10.0 ** units[1]
        ctxs = f'scheme={scheme} mode={mode} units={units}'
        built, e = call(build_network, br, ref, naming, mode, units)
        if e is not None:
            r.mismatches.append({'what': 'Network(...)', 'got': repr(e), 'want': 'accepted', 'signature': f'exc:construct:{exc_sig(e)}', 'detail': ctxs})
            continue
        net, ids = built
        before = project_network(net)
        base = solve_all(net, br, ids, naming, r.mismatches, 'original', ctxs)
        if base is None:
            continue
        r.observations += cmp_obs(base, case['expect'], zu, vu, 1, br, r.mismatches, 'original', ctxs, 'base')
        singles = {}
        for key, sub in case['subsets'].items():
            keep_ids = sub['keep']
            if keep_ids:
                tg.add('keep:nonempty')
            keep = [b.element for b in net.branches if any(ids[k] == b.id for k in keep_ids)]
            # a keep list as a user would write it: freshly constructed equal elements, plus an unrelated one
            if (h >> 3) % 2:
                keep = [make_element(ids[b['id']], b['e'], mode, zu, vu) for b in br if b['id'] in keep_ids]
            keep_snapshot = list(keep)
            ops = [('both', lambda: trf.open_circuitify_current_sources(trf.short_circuitify_voltage_sources(net, keep=keep), keep=keep), sub['net'], sub['expect']),
                   ('short_circuitify_voltage_sources', lambda: trf.short_circuitify_voltage_sources(net, keep=keep), sub['zv'], sub['zvx']),
                   ('open_circuitify_current_sources', lambda: trf.open_circuitify_current_sources(net, keep=keep), sub['zi'], sub['zix'])]
            for opname, op, snet_spec, sexp in ops:
                z, e = call(op)
                what = f'{opname}(keep={sorted(keep_ids)})'
                if e is not None:
                    r.mismatches.append({'what': what, 'got': repr(e), 'want': 'network', 'signature': f'exc:zeroing:{exc_sig(e)}', 'detail': ctxs})
                    continue
                r.observations += 1
                if keep != keep_snapshot:
                    r.mismatches.append({'what': what + ' keep list', 'got': repr(keep), 'want': repr(keep_snapshot), 'signature': 'mutated:keep', 'detail': ctxs})
                pz = project_network(z)
                # structure: same ids, terminals, order; element electrically = the specification's
                # matched by identifier: the order of the branch list is not part of the property
                by_id = {pb['id']: pb for pb in pz['br']}
                ok = len(pz['br']) == len(snet_spec) and len(by_id) == len(pz['br']) and pz['ref'] == naming.node(ref) and all(ids[sb['id']] in by_id for sb in snet_spec)
                if ok:
                    for sb, ob in zip(snet_spec, br):
                        pb = by_id[ids[sb['id']]]
                        if not (pb['n1'] == naming.node(sb['n1']) and pb['n2'] == naming.node(sb['n2']) and same_elem(pb, sb['e'], zu, vu)):
                            ok = False
                        if opname == 'both' and ob['e'] != sb['e'] and ob['id'] not in keep_ids:
                            oe = ob['e']
                            tg.add('zeroed:' + ('linear' if oe['imm'] != [[0, 1], [0, 1]] else 'ideal') + ('_v' if oe['f'] == 'N' else '_i'))
                if not ok:
                    r.mismatches.append({'what': what + ' structure', 'got': repr(pz), 'want': repr(snet_spec), 'signature': f'structure:{opname}', 'detail': ctxs})
                    continue
                zb = [dict(b, e=sb['e']) for b, sb in zip(br, snet_spec)]
                got = solve_all(z, zb, ids, naming, r.mismatches, what, ctxs)
                if got is None:
                    continue
                r.observations += cmp_obs(got, sexp, zu, vu, 1, zb, r.mismatches, what, ctxs, f'zeroed:{opname}')
                if opname == 'both' and len(keep_ids) == 1:
                    singles[keep_ids[0]] = got
                if project_network(net) != before:
                    r.mismatches.append({'what': what + ' input network', 'got': 'changed', 'want': 'unchanged', 'signature': 'mutated:network', 'detail': ctxs})
        # pair relation between code runs: sum of single-source potentials = full potentials
        if nsrc >= 1 and len(singles) == nsrc:
            s_v, _, _ = scales(br, [base['phi'].values(), base['u']], [base['i']], zu, vu)
            for n, v in base['phi'].items():
                r.observations += 1
                tot = sum(s['phi'][n] for s in singles.values())
                if not close(tot, v, s_v, rtol=1e-8):
                    r.mismatches.append({'what': f'sum over single-source runs, potential of node {n}', 'got': repr(tot), 'want': repr(v), 'signature': 'relation:superposition', 'detail': ctxs})
        # scaling: rebuild with every source value multiplied by a
        a = FACTORS[(h >> 9) % len(FACTORS)]
        sbr = [dict(b, e=scale_elem(b['e'], a)) for b in br]
        built, e = call(build_network, sbr, ref, naming, 1, units)
        if e is None:
            snet, sids = built
            got = solve_all(snet, sbr, sids, naming, r.mismatches, f'scaled by {a}', ctxs)
            if got is not None:
                r.observations += cmp_obs(got, case['expect'], zu, vu, a, br, r.mismatches, f'scaled by {a}', ctxs, 'scaled')
    r.tags = sorted(tg)
    return r


def scale_elem(e, a):
    from fractions import Fraction
    re, im = Fraction(*e['src'][0]), Fraction(*e['src'][1])
    ar, ai = Fraction(a.real).limit_denominator(1000), Fraction(a.imag).limit_denominator(1000)
    nr, ni = re * ar - im * ai, re * ai + im * ar
    src = [[nr.numerator, nr.denominator], [ni.numerator, ni.denominator]]
    e2 = dict(e, src=src)
    k = e['k']
    if k in ('voltage_source', 'current_source'):
        e2['a'] = [src, e['a'][1]]
    return e2
