"""C03 - results are independent of names, listing order, reference node and terminal order.

TLC proves on the bounded models (MC_C03, MC_C03c) the relations a transformed description must satisfy (reversal negates exactly the element's own
voltage and current, another reference is a common shift, listing order is irrelevant).  The replay applies random renamings (adversarial naming schemes),
permutations, reversals and reference changes to the real objects and compares the library's answers with the base expectation pushed through those relations."""
from __future__ import annotations
import copy, random, itertools
from ..common import CaseResult, Naming, N_SCHEMES, stable_hash, gauss, rat, close, call, exc_sig, ensure_repo_import
from ..netbuild import build_network, UNITS
from .c16 import items
from . import c01, c02, c10, c12

ensure_repo_import()
from CircuitCalculator.Network.NodalAnalysis import node_analysis as na  # noqa: E402

PROP = 'C03'
RULE = ('base scenarios = reachable well-posed networks of MC_C03 and circuits of MC_C03c; each is replayed under seeded random combinations of naming scheme '
        '(42 adversarial schemes), permutation of the listing, subset of reversed elements and reference node; non-trivial = transformed description differs from the base')


def models(tier, seed):
    if tier == 'quick':
        return [dict(module='MC_C03.tla', cfg='MC_C03_quick.cfg', batch=100), dict(module='MC_C03c.tla', cfg='MC_C03c_quick.cfg', batch=100),
                dict(module='MC_C12.tla', cfg='MC_C03_dyn.cfg', batch=20)]
    return [dict(module='MC_C03.tla', cfg='MC_C03_thorough.cfg', batch=100), dict(module='MC_C03c.tla', cfg='MC_C03c_thorough.cfg', batch=100),
            dict(module='MC_C12.tla', cfg='MC_C12_quick.cfg', batch=20)]


def required_tags(tier):
    return ['network', 'circuit', 'permuted', 'reversed', 'ref_switched', 'renamed', 'port', 'reversed_source', 'ground_moved', 'dynamic']


def neg(g):
    """negate a rational [n,d] or a Gaussian [[n,d],[n,d]]"""
    if isinstance(g[0], list):
        return [[-g[0][0], g[0][1]], [-g[1][0], g[1][1]]]
    return [-g[0], g[1]]


def reverse_branch(b):
    b = copy.deepcopy(b)
    b['n1'], b['n2'] = b['n2'], b['n1']
    e = b['e']
    e['src'] = neg(e['src'])
    if e['k'] in ('voltage_source', 'current_source'):
        e['a'] = [neg(e['a'][0]), e['a'][1]]
    return b


def transform_network_case(case, order, S, g):
    br, ex = case['br'], case['expect']
    phi = {int(n): v for n, v in items(ex['phi'])}
    shift = gauss(phi[g])

    def sub(v):                     # exact shift is done in floats later; keep a marker
        return v
    br2, u2, i2, p2 = [], [], [], []
    for k in order:
        rev = k in S
        br2.append(reverse_branch(br[k]) if rev else br[k])
        u2.append(neg(ex['u'][k]) if rev else ex['u'][k])
        i2.append(neg(ex['i'][k]) if rev else ex['i'][k])
        p2.append(ex['p'][k])
    return {'br': br2, 'ref': g, 'expect': {'phi': {str(n): v for n, v in phi.items()}, 'u': u2, 'i': i2, 'p': p2}, '_shift': phi[g]}


def gsub(a, b):
    """exact difference of two Gaussians given as [[n,d],[n,d]]"""
    from fractions import Fraction
    re = Fraction(*a[0]) - Fraction(*b[0])
    im = Fraction(*a[1]) - Fraction(*b[1])
    return [[re.numerator, re.denominator], [im.numerator, im.denominator]]


def replay_network(case, ctx, r, tg):
    br, ref = case['br'], case['ref']
    h = stable_hash([br, ref])
    rng = random.Random(ctx.get('seed', 0) * 1000003 + h)
    n = len(br)
    nodes = sorted({b['n1'] for b in br} | {b['n2'] for b in br})
    combos = case.get('combos')
    if combos is None:
        k = 3 if ctx.get('tier') != 'thorough' else 8
        combos = []
        for j in range(k):
            order = list(range(n))
            rng.shuffle(order)
            S = [i for i in range(n) if rng.random() < 0.5]
            g = rng.choice(nodes)
            combos.append((order, S, g, rng.randrange(N_SCHEMES), rng.randrange(3), list(UNITS[rng.randrange(len(UNITS))])))
        case['combos'] = combos          # so that a replay file pins them
    tg.add('network')
    for order, S, g, scheme, mode, units in combos:
        c2 = transform_network_case(case, order, set(S), g)
        sh = c2.pop('_shift')
        c2['expect']['phi'] = {nn: gsub(v, sh) for nn, v in c2['expect']['phi'].items()}
        if order != sorted(order):
            tg.add('permuted')
        if S:
            tg.add('reversed')
            if any(br[i]['e']['src'] != [[0, 1], [0, 1]] for i in S):
                tg.add('reversed_source')
        if g != ref:
            tg.add('ref_switched')
        if scheme:
            tg.add('renamed')
        before = len(r.mismatches)
        r.observations += c01.compare_solution(c2, scheme, mode, tuple(units), r.mismatches)
        for m in r.mismatches[before:]:
            m['detail'] += f' order={order} reversed={sorted(S)} ref={g}'
            m['signature'] = 'transformed:' + m['signature']
        # port impedances are unchanged
        naming = Naming(scheme)
        built, e = call(build_network, c2['br'], g, naming, mode, tuple(units))
        if e is None:
            net, ids = built
            zu = 10.0 ** units[0]
            zs = [abs(gauss(p['r']['z'])) * zu for _, p in items(case['z']) if p['r']['d']]
            s_z = max(zs + [abs(gauss(b['e']['imm'])) * zu for b in br] + [0.0])
            for _, p in items(case['z']):
                if not p['r']['d']:
                    continue
                tg.add('port')
                la, lb = naming.node(p['a']), naming.node(p['b'])
                got, e = call(na.open_circuit_impedance, net, la, lb)
                r.observations += 1
                want = gauss(p['r']['z']) * zu
                if e is not None or not close(got, want, s_z):
                    r.mismatches.append({'what': f'open_circuit_impedance({la!r},{lb!r}) on transformed network', 'got': repr(e or got), 'want': repr(want),
                                         'signature': 'transformed:open_circuit_impedance', 'detail': f'scheme={scheme} order={order} reversed={sorted(S)} ref={g}'})


def reverse_comp(c):
    c = copy.deepcopy(c)
    c['n1'], c['n2'] = c['n2'], c['n1']
    v = c['v']
    for key in ('V', 'I'):
        if key in v:
            v[key] = neg(v[key])
    return c


def replay_circuit(case, ctx, r, tg):
    comps = case['comps']
    h = stable_hash(comps)
    rng = random.Random(ctx.get('seed', 0) * 1000003 + h)
    ng = [c for c in comps if c['kind'] != 'ground']
    gnd = [c for c in comps if c['kind'] == 'ground']
    n = len(ng)
    combos = case.get('combos')
    if combos is None:
        combos = []
        for j in range(2 if ctx.get('tier') != 'thorough' else 6):
            order = list(range(n))
            rng.shuffle(order)
            S = [i for i in range(n) if rng.random() < 0.5]
            gpos = rng.randrange(n + 1)
            combos.append((order, S, gpos, rng.randrange(1, N_SCHEMES), rng.randrange(3) - 1, list(c02.UNITS3[rng.randrange(len(c02.UNITS3))])))
        case['combos'] = combos
    tg.add('circuit')
    for order, S, gpos, scheme, turns, units in combos:
        S = set(S)
        comps2 = [reverse_comp(ng[k]) if k in S else ng[k] for k in order]
        if gnd:
            comps2 = comps2[:gpos] + gnd + comps2[gpos:]
            newref = gnd[0]['n1']
            if gpos != 1:
                tg.add('ground_moved')
        else:
            newref = comps2[0]['n1']
        if newref != case['ref']:
            tg.add('ref_switched')
        if order != sorted(order):
            tg.add('permuted')
        if S:
            tg.add('reversed')
            if any('source' in ng[i]['kind'] for i in S):
                tg.add('reversed_source')
        tg.add('renamed')
        at2 = []
        for _, at in items(case['at']):
            if not at['ok']:
                at2.append(at)
                continue
            x = at['x']
            phi = {int(nn): v for nn, v in items(x['phi'])}
            at2.append({'w': at['w'], 'ok': True, 'x': {
                'phi': {str(nn): gsub(v, phi[newref]) for nn, v in phi.items()},
                'u': [neg(x['u'][k]) if k in S else x['u'][k] for k in order],
                'i': [neg(x['i'][k]) if k in S else x['i'][k] for k in order]}})
        c2 = {'comps': comps2, 'ref': newref, 'res': case['res'], 'at': at2, 'schemes': [(scheme, turns, units)]}
        rr = c02.replay(c2, ctx)
        r.observations += rr.observations
        for m in rr.mismatches:
            m['detail'] += f' order={order} reversed={sorted(S)} ground_pos={gpos}'
            m['signature'] = 'transformed:' + m['signature']
            r.mismatches.append(m)


def replay(case, ctx):
    r = CaseResult(case_id=f'{stable_hash(case.get("br") or case.get("comps")):x}')
    tg = set()
    if 'run' in case:
        # state-space transfer behaviour and transient waveforms under renamings that interleave sources, inductors and passive elements:
        # the exact closed-form response (MC_C12) is the common reference for every naming
        tg.add('dynamic')
        h = stable_hash(case['comps'])
        rng = random.Random(ctx.get('seed', 0) * 97 + h)
        schemes = sorted({rng.randrange(1, N_SCHEMES) for _ in range(2)})
        rr = c12.replay(dict(case, schemes=[(sc,) for sc in schemes]), dict(ctx, tier='quick'))
        r.observations += rr.observations
        for m in rr.mismatches:
            m['signature'] = 'transformed:' + m['signature']
            r.mismatches.append(m)
        tg.add('renamed')
    elif 'br' in case:
        replay_network(case, ctx, r, tg)
    else:
        replay_circuit(case, ctx, r, tg)
    r.tags = sorted(tg)
    return r
