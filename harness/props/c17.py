"""C17 - loading describes exactly what was written, without side effects."""
from __future__ import annotations
import copy, json, math, os, tempfile
from ..common import CaseResult, Naming, N_SCHEMES, NODE_NAMES, ID_PREFIX, stable_hash, gauss, rat, close, call, exc_sig, ensure_repo_import
from ..netbuild import project_network
from ..circbuild import make_component, f as fl, phase_of
from .c04 import same_elem
from .c16 import items

ensure_repo_import()
from CircuitCalculator.Network import loaders          # noqa: E402
from CircuitCalculator import dump_load                  # noqa: E402
from CircuitCalculator.Circuit import dump_load as cdl   # noqa: E402

PROP = 'C17'
RULE = ('scenarios = (a) every kind of the network loader table x notations of its complex fields x optional fields x position in a three-entry description, '
        '(b) every component of the circuit loader table\'s kinds with the parameter values of MC_C07, (c) every nested document of depth <= 3 over dictionaries, lists '
        'and integer / float / string / complex leaves, both formats; distinct by TLC fingerprint; each is loaded twice and its argument snapshot compared')


def models(tier, seed):
    return [dict(module='MC_C17.tla', cfg='MC_C17_quick.cfg', batch=50), dict(module='MC_C17c.tla', cfg='MC_C17c.cfg', batch=20),
            dict(module='MC_C17d.tla', cfg='MC_C17d.cfg', batch=100)]


def required_tags(tier):
    return ['net:' + k for k in ['resistor', 'conductor', 'impedance', 'admittance', 'linear_current_source', 'current_source', 'real_current_source',
                                 'linear_voltage_source', 'voltage_source', 'real_voltage_source', 'short_circuit', 'open_circuit']] + \
           ['notation:ri', 'notation:pr', 'to_complex:degree', 'second_load', 'from_json', 'circ:impedance', 'circ:ac_voltage_source', 'circ:complex_current_source',
            'doc:json', 'doc:yaml', 'doc:nested_list', 'doc:complex', 'written:cartesian', 'written:polar_rad', 'written:polar_deg', 'shared_block', 'yaml_alias']


def written_py(wr):
    mag = float(rat(wr['mag']))
    if wr['nt'] == 'real':
        return mag
    u = wr['u']
    g = gauss(u) * mag
    if wr['nt'] == 'ri':
        return {'real': g.real, 'imag': g.imag}
    return {'abs': mag, 'phase': phase_of(u)}


def snapshot(x):
    return json.dumps(x, sort_keys=True, default=repr)


def replay_net(case, ctx, r, tg):
    h = stable_hash(case['doc'])
    scheme = h % len(ID_PREFIX)
    idn = Naming(scheme * len(NODE_NAMES))                    # plain node names ('0' must exist), adversarial ids
    doc = []
    for en in case['doc']:
        d = {'type': en['type'], 'id': idn.eid(en['id']), 'N1': str(en['n1']), 'N2': str(en['n2'])}
        for fname, wr in (en['val'] if isinstance(en['val'], dict) else {}).items():
            d[fname] = written_py(wr)
            if wr['nt'] in ('ri', 'pr'):
                tg.add('notation:' + wr['nt'])
        doc.append(d)
        tg.add('net:' + en['type'])
    snap = snapshot(doc)
    mism = r.mismatches
    ctxs = f'id scheme={scheme}'

    def compare(net, what):
        r.observations += 1
        pn = project_network(net)
        by_id = {pb['id']: pb for pb in pn['br']}           # matched by identifier; the order of the branch list is not part of the property
        ok = len(pn['br']) == len(case['net']) and len(by_id) == len(pn['br']) and pn['ref'] == '0' and all(idn.eid(sb['id']) in by_id for sb in case['net'])
        if ok:
            for sb in case['net']:
                pb = by_id[idn.eid(sb['id'])]
                if not (pb['n1'] == str(sb['n1']) and pb['n2'] == str(sb['n2']) and same_elem(pb, sb['e'], 1.0, 1.0)):
                    ok = False
        if not ok:
            k = case['doc'][case['pos'] - 1]['type']
            mism.append({'what': what, 'got': repr(pn), 'want': repr(case['net']), 'signature': f'loaded:{k}', 'detail': ctxs})

    net1, e = call(loaders.load_network, doc)
    k = case['doc'][case['pos'] - 1]['type']
    if e is not None:
        mism.append({'what': 'load_network(doc)', 'got': repr(e), 'want': 'network', 'signature': f'exc:load:{k}:{exc_sig(e)}', 'detail': ctxs})
    else:
        compare(net1, 'load_network(doc)')
    r.observations += 1
    if snapshot(doc) != snap:
        mism.append({'what': 'load_network(doc): the description after the call', 'got': snapshot(doc)[:300], 'want': snap[:300], 'signature': 'mutated:load_network', 'detail': ctxs})
    tg.add('second_load')
    net2, e2 = call(loaders.load_network, doc)
    r.observations += 1
    if (e is None) != (e2 is None) or (e is None and project_network(net1) != project_network(net2)):
        mism.append({'what': 'second load_network(doc) of the same object', 'got': repr(e2 or project_network(net2)), 'want': 'same as the first load',
                     'signature': 'second_load_differs', 'detail': ctxs})
    # from a JSON file
    tg.add('from_json')
    fresh = json.loads(snap)
    tmp = tempfile.NamedTemporaryFile('w', suffix='.json', delete=False)
    try:
        json.dump(fresh, tmp)
        tmp.close()
        net3, e3 = call(loaders.load_network_from_json, tmp.name)
    finally:
        os.unlink(tmp.name)
    if e3 is not None:
        if e is None:
            mism.append({'what': 'load_network_from_json', 'got': repr(e3), 'want': 'network', 'signature': f'exc:load_json:{k}:{exc_sig(e3)}', 'detail': ctxs})
    else:
        compare(net3, 'load_network_from_json')
    # to_complex on each written complex number, radians and degrees
    for en in case['doc']:
        for fname, wr in (en['val'] if isinstance(en['val'], dict) else {}).items():
            if wr['nt'] == 'real':
                continue
            want = gauss(wr['u']) * float(rat(wr['mag']))
            for form in ('ri', 'pr', 'pd'):
                if form == 'ri':
                    z = {'real': want.real, 'imag': want.imag}
                    kw = {}
                elif form == 'pr':
                    z = {'abs': abs(want), 'phase': phase_of(wr['u'])}
                    kw = {}
                else:
                    z = {'abs': abs(want), 'phase': math.degrees(phase_of(wr['u']))}
                    kw = {'degree': True}
                    tg.add('to_complex:degree')
                zs = dict(z)
                got, e = call(loaders.to_complex, z, **kw)
                r.observations += 1
                if e is not None or not close(got, want, abs(want)):
                    mism.append({'what': f'to_complex({zs}, {kw})', 'got': repr(e or got), 'want': repr(want), 'signature': f'to_complex:{form}', 'detail': ctxs})
                if z != zs:
                    mism.append({'what': f'to_complex({zs}, {kw}): argument after the call', 'got': repr(z), 'want': repr(zs), 'signature': f'mutated:to_complex:{form}', 'detail': ctxs})
                got2, e = call(loaders.to_complex, z, **kw)
                if e is None and got is not None and not close(got2, got, abs(want)):
                    mism.append({'what': f'second to_complex on the same dictionary', 'got': repr(got2), 'want': repr(got), 'signature': f'second_call:to_complex:{form}', 'detail': ctxs})


def replay_comp(case, ctx, r, tg):
    c = case['comp']
    h = stable_hash(c)
    naming = Naming(h % N_SCHEMES)
    ids = {c['id']: naming.eid(c['id'])}
    want, e = call(make_component, c, naming, ids)
    if e is not None:
        r.mismatches.append({'what': 'constructor', 'got': repr(e), 'want': 'component', 'signature': f'exc:ctor:{c["kind"]}', 'detail': ''})
        return
    tg.add('circ:' + c['kind'])
    v = c['v']
    k = c['kind']
    if k in ('impedance',):
        value = {'Z': complex(fl(v['R']), fl(v['X']))}
    elif k == 'admittance':
        value = {'Y': complex(fl(v['G']), fl(v['B']))}
    elif k == 'complex_voltage_source':
        value = {'V': gauss(v['V']), 'Z': gauss(v['Z'])}
    elif k == 'complex_current_source':
        value = {'I': gauss(v['I']), 'Y': gauss(v['Y'])}
    elif k.startswith('ac_'):
        value = {kk: fl(vv) for kk, vv in v.items() if kk != 'u'}
        value['phi'] = phase_of(v['u'])
    else:
        value = {kk: fl(vv) for kk, vv in v.items()}
    entry = {'type': k, 'id': ids[c['id']], 'nodes': (naming.node(c['n1']), naming.node(c['n2'])), 'value': value}
    snap = snapshot(entry)
    got, e = call(cdl.generate_component, entry)
    r.observations += 1
    if e is not None or got != want:
        r.mismatches.append({'what': f'generate_component({entry})', 'got': repr(e or got), 'want': repr(want), 'signature': f'generate_component:{k}', 'detail': ''})
    if snapshot(entry) != snap:
        r.mismatches.append({'what': 'generate_component: the entry after the call', 'got': snapshot(entry), 'want': snap, 'signature': 'mutated:generate_component', 'detail': ''})
    doc = {'components': [entry, {'type': 'resistor', 'id': 'other', 'nodes': ('a', 'b'), 'value': {'R': 2.0}}]}
    snap = snapshot(doc)
    circ, e = call(cdl.undictify_circuit, doc)
    r.observations += 1
    if e is not None or circ.components[0] != want or len(circ.components) != 2:
        r.mismatches.append({'what': 'undictify_circuit', 'got': repr(e or circ), 'want': repr(want), 'signature': f'undictify_circuit:{k}', 'detail': ''})
    c2, e2 = call(cdl.undictify_circuit, doc)
    if snapshot(doc) != snap or (e is None) != (e2 is None) or (e is None and c2 != circ):
        r.mismatches.append({'what': 'undictify_circuit twice / argument snapshot', 'got': repr(e2 or c2), 'want': repr(circ), 'signature': 'mutated:undictify_circuit', 'detail': ''})


def py_doc(n, tg, depth=0):
    if 'i' in n:
        return n['i']
    if 's' in n:
        return n['s']
    if 'f' in n:
        return float(rat(n['f']))
    if 'c' in n:
        tg.add('doc:complex')
        return gauss(n['c'])
    if 'l' in n:
        if depth:
            tg.add('doc:nested_list')
        return [py_doc(x, tg, depth + 1) for x in n['l']]
    return {k: py_doc(v, tg, depth + 1) for k, v in n['d'].items()}


def same_doc(a, b):
    if isinstance(b, complex):
        return isinstance(a, complex) and close(a, b, abs(b))
    if isinstance(b, dict):
        return isinstance(a, dict) and a.keys() == b.keys() and all(same_doc(a[k], b[k]) for k in b)
    if isinstance(b, list):
        return isinstance(a, list) and len(a) == len(b) and all(same_doc(x, y) for x, y in zip(a, b))
    if isinstance(b, float):
        return isinstance(a, (int, float)) and not isinstance(a, bool) and close(a, b, abs(b))
    return type(a) is type(b) and a == b


def replay_doc(case, ctx, r, tg):
    want = py_doc(case['expect'], tg)
    for fmt in ('json', 'yaml'):
        tg.add('doc:' + fmt)
        doc = py_doc(case['ndoc'], tg)
        text, e = call(dump_load.serialize, doc, fmt)
        r.observations += 1
        if e is not None:
            r.mismatches.append({'what': f'serialize(doc, {fmt!r})', 'got': repr(e), 'want': 'text', 'signature': f'exc:serialize:{fmt}:{exc_sig(e)}', 'detail': repr(want)[:300]})
            continue
        back, e = call(dump_load.deserialize, text, fmt)
        if e is not None or not same_doc(back, want):
            r.mismatches.append({'what': f'deserialize(serialize(doc, {fmt!r}))', 'got': repr(e or back)[:400], 'want': repr(want)[:400], 'signature': f'roundtrip:{fmt}', 'detail': text[:300]})
        # through files
        path = os.path.join(tempfile.gettempdir(), f'verif_c17_{os.getpid()}.{fmt}')
        try:
            doc2 = py_doc(case['ndoc'], tg)
            _, e = call(dump_load.dump, path, doc2)
            if e is None:
                back2, e = call(dump_load.load, path)
            if e is not None or not same_doc(back2, want):
                r.mismatches.append({'what': f'load(dump(doc)) .{fmt}', 'got': repr(e or back2)[:400], 'want': repr(want)[:400], 'signature': f'roundtrip_file:{fmt}', 'detail': ''})
        finally:
            if os.path.exists(path):
                os.unlink(path)


def written_doc(n, notation):
    """the document with every complex leaf written in one of the three notations of a description"""
    import cmath
    if 'i' in n:
        return n['i']
    if 's' in n:
        return n['s']
    if 'f' in n:
        return float(rat(n['f']))
    if 'c' in n:
        z = gauss(n['c'])
        if notation == 'cartesian':
            return {'real': z.real, 'imag': z.imag}
        if notation == 'polar_rad':
            return {'abs': abs(z), 'phase': cmath.phase(z)}
        return {'abs': abs(z), 'phase_deg': math.degrees(cmath.phase(z))}
    if 'l' in n:
        return [written_doc(x, notation) for x in n['l']]
    return {k: written_doc(v, notation) for k, v in n['d'].items()}


def replay_written(case, ctx, r, tg):
    """loading an in-memory description whose complex values are written out (Cartesian / polar rad / polar deg): same numbers in every
    notation, the description unchanged, a second load equal to the first; also through JSON text"""
    import copy, json as _json
    want = py_doc(case['expect'], set())
    for notation in ('cartesian', 'polar_rad', 'polar_deg'):
        doc = written_doc(case['ndoc'], notation)
        snap = snapshot(doc)
        tg.add('written:' + notation)
        for k in (1, 2):
            got, e = call(dump_load.undictify_all_complex_values, doc)
            r.observations += 1
            if e is not None or not same_doc_tol(got, want):
                r.mismatches.append({'what': f'undictify_all_complex_values(description in {notation} notation), load {k}', 'got': repr(e or got)[:400], 'want': repr(want)[:400],
                                     'signature': f'written:{notation}:value', 'detail': snap[:300]})
                break
            if snapshot(doc) != snap:
                r.mismatches.append({'what': f'undictify_all_complex_values: the description ({notation} notation) after load {k}', 'got': snapshot(doc)[:400], 'want': snap[:400],
                                     'signature': f'mutated:undictify_all_complex_values:{notation}', 'detail': ''})
                break
        # the same description block referred to several times (YAML anchors / aliases, or one Python object used at several places)
        sub = written_doc(case['ndoc'], notation)
        shared = {'first': sub, 'again': sub, 'in_list': [sub, {'nested': sub}]}
        want_shared = {'first': want, 'again': want, 'in_list': [want, {'nested': want}]}
        tg.add('shared_block')
        got, e = call(dump_load.undictify_all_complex_values, shared)
        r.observations += 1
        if e is not None or not same_doc_tol(got, want_shared):
            r.mismatches.append({'what': f'undictify_all_complex_values(description with a block used four times, {notation} notation)', 'got': repr(e or got)[:400], 'want': repr(want_shared)[:400],
                                 'signature': f'written:{notation}:shared_block', 'detail': ''})
        import yaml as _yaml
        ytext = _yaml.dump(shared)
        if '*id' in ytext:
            tg.add('yaml_alias')
        got, e = call(dump_load.deserialize, ytext, 'yaml')
        r.observations += 1
        if e is not None or not same_doc_tol(got, want_shared):
            r.mismatches.append({'what': f'deserialize(YAML text with anchors and aliases, {notation} notation)', 'got': repr(e or got)[:400], 'want': repr(want_shared)[:400],
                                 'signature': f'written_text:{notation}:yaml_alias', 'detail': ytext[:300]})
        text = _json.dumps(written_doc(case['ndoc'], notation))
        got, e = call(dump_load.deserialize, text, 'json')
        r.observations += 1
        if e is not None or not same_doc_tol(got, want):
            r.mismatches.append({'what': f'deserialize(JSON text in {notation} notation)', 'got': repr(e or got)[:400], 'want': repr(want)[:400], 'signature': f'written_text:{notation}:value', 'detail': text[:300]})


def same_doc_tol(a, b):
    """same_doc with the tolerance a polar notation needs (abs and phase are binary64 roundings)"""
    if isinstance(b, complex):
        return isinstance(a, complex) and close(a, b, abs(b), rtol=1e-12, atol=1e-300)
    if isinstance(b, dict):
        return isinstance(a, dict) and a.keys() == b.keys() and all(same_doc_tol(a[k], b[k]) for k in b)
    if isinstance(b, list):
        return isinstance(a, list) and len(a) == len(b) and all(same_doc_tol(x, y) for x, y in zip(a, b))
    return same_doc(a, b)


def replay(case, ctx):
    r = CaseResult(case_id=f'{stable_hash(case):x}')
    tg = set()
    if 'doc' in case:
        replay_net(case, ctx, r, tg)
    elif 'comp' in case:
        replay_comp(case, ctx, r, tg)
    else:
        replay_doc(case, ctx, r, tg)
        replay_written(case, ctx, r, tg)
    r.tags = sorted(tg)
    return r
