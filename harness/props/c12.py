"""C12 - transient simulation solves the circuit's differential equations."""
from __future__ import annotations
import cmath, math
import numpy as np
from ..common import CaseResult, Naming, N_SCHEMES, stable_hash, gauss, rat, close, call, exc_sig, ensure_repo_import
from ..circbuild import build_circuit
from .c16 import items
from .c10 import scheme_is_default_order

ensure_repo_import()
from CircuitCalculator.Circuit.solution import TransientSolution, DCSolution  # noqa: E402

PROP = 'C12'
RULE = ('scenarios = non-degenerate circuits of MC_C12 with distinct Gaussian-rational poles (exact closed-form first-order-hold response, polynomials in exp(lambda h) '
        'and 1/h) plus the circuits of MC_C10 outside that class (algebraic clauses: rest start, Kirchhoff at every sample, settling to the DC solution); each replayed '
        'for step / triangle / ramp inputs on two grids under adversarial naming schemes; distinct by TLC fingerprint; non-trivial = every scenario')


def models(tier, seed):
    ms = [dict(module='MC_C12.tla', cfg=f'MC_C12_{tier}.cfg', batch=20)]
    ms.append(dict(module='MC_C12.tla', cfg='MC_C12_series.cfg' if tier == 'quick' else 'MC_C12_series_thorough.cfg', batch=20))
    ms.append(dict(module='MC_C12.tla', cfg='MC_C12_parallel.cfg', batch=20))
    ms.append(dict(module='MC_C10.tla', cfg='MC_C10_quick2.cfg', batch=20))
    ms.append(dict(module='MC_C10.tla', cfg='MC_C10_light3.cfg', batch=20))
    return ms


def required_tags(tier):
    return ['order:1', 'order:2', 'complex_poles', 'real_poles', 'closed_form', 'algebraic_only', 'settle_dc', 'kcl', 'rest_start', 'scheme:other', 'sources:2', 'capacitors>=2', 'reanalysed_with_other_values']


def poly_eval(poly, p, eta):
    tot = 0j
    for d, (a, b) in enumerate(poly):
        tot += (gauss(a) + gauss(b) * eta) * p ** d
    return tot


def vals(x):
    return list(x.values()) if isinstance(x, dict) else list(x)


def run_transient(circuit, ids, src_ids, t, U, mism, ctxs):
    inputs = {}
    for q, sid in enumerate(src_ids):
        inputs[ids[sid]] = (lambda tt, q=q: np.interp(tt, t, U[:, q]))
    sol, e = call(lambda: TransientSolution(circuit, tin=t, input=inputs))
    if e is not None:
        mism.append({'what': 'TransientSolution', 'got': repr(e), 'want': 'solution', 'signature': f'exc:transient:{exc_sig(e)}', 'detail': ctxs})
        return None
    return sol


def series(sol, kind, name, mism, ctxs):
    fn = {'phi': sol.get_potential, 'u': sol.get_voltage, 'i': sol.get_current, 'p': sol.get_power}[kind]
    res, e = call(fn, name)
    if e is not None:
        mism.append({'what': f'TransientSolution.{fn.__name__}({name!r})', 'got': repr(e), 'want': 'series', 'signature': f'exc:transient:{fn.__name__}:{exc_sig(e)}', 'detail': ctxs})
        return None
    return np.asarray(res[1], dtype=float)


def replay(case, ctx):
    comps = case['comps']
    h0 = stable_hash(comps)
    r = CaseResult(case_id=f'{h0:x}')
    tg = set()
    mism = r.mismatches
    ng = [c for c in comps if c['kind'] != 'ground']
    nodes = sorted({c['n1'] for c in ng} | {c['n2'] for c in ng})
    src_ids = case['sources']
    if len(src_ids) >= 2:
        tg.add('sources:2')
    if sum(1 for c in ng if c['kind'] == 'capacitor') >= 2:
        tg.add('capacitors>=2')
    closed = 'run' in case
    if not closed and ctx.get('tier') != 'thorough' and len(ng) >= 5 and h0 % 6:
        r.skipped = 'sampled_out_in_quick_tier'
        r.nontrivial = False
        return r
    tg.add('closed_form' if closed else 'algebraic_only')
    A = np.array([[float(rat(x)) for x in row] for row in case['A']])
    eig = np.linalg.eigvals(A)
    tg.add(f'order:{len(eig)}')
    tg.add('complex_poles' if np.any(np.abs(eig.imag) > 1e-12) else 'real_poles')
    variants = case.get('schemes') or [(0,), ((h0 % (N_SCHEMES - 1)) + 1 + N_SCHEMES * (1 + (h0 >> 13) % 2),)]       # + k * N_SCHEMES: another within-role index table of the names (common.ID_PERMS)
    variants = [tuple(v) for v in variants]
    if 'schemes' not in case and (ctx.get('tier') == 'thorough' or h0 % 2 == 0):
        # the same circuit under the same names with other capacitances / inductances (frequency unit 10 ... 1e9: C/wu, L/wu) on a time axis
        # compressed by wu: every sample keeps its value - a simulation must not remember the previous circuit of that name
        variants.append((0, [1, 3, 9, 7][(h0 >> 1) % 4]))         # down to nF / pF capacitances and nH inductances on a ns time axis
    for var in variants:
        scheme = var[0]
        wexp = var[1] if len(var) > 1 else 0
        wu = 10.0 ** wexp
        naming = Naming(scheme)
        if not scheme_is_default_order(scheme):
            tg.add('scheme:other')
        if wexp:
            tg.add('reanalysed_with_other_values')
        ctxs = f'scheme={scheme}' + (f' frequency_unit=1e{wexp}' if wexp else '')
        built, e = call(build_circuit, comps, naming, 0, (0, 0, wexp))
        if e is not None:
            mism.append({'what': 'Circuit(...)', 'got': repr(e), 'want': 'accepted', 'signature': f'exc:construct:{exc_sig(e)}', 'detail': ctxs})
            continue
        circuit, ids = built
        lam_max = max(abs(eig))
        # ---------------- closed form
        if closed:
            K = case['K']
            lam = [gauss(x) for x in case['poles']]
            Useq = np.array([[float(rat(x)) for x in vals(row)] for row in vals(case['u'])])       # (K+1) x m
            for hf in ((0.2, 0.037) if ctx.get('tier') == 'thorough' or len(variants) == 1 else ((0.2,) if scheme == 0 and not wexp else (0.037,))):
                h = hf / lam_max
                t = h * np.arange(K + 1)
                sol = run_transient(circuit, ids, src_ids, t / wu, Useq, mism, ctxs + f' h={h}')
                if sol is None:
                    continue
                eta = 1.0 / h
                n = len(case['states'])
                X = np.zeros((K + 1, n), dtype=complex)
                for i, mode in enumerate(vals(case['run'])):
                    p = cmath.exp(lam[i] * h)
                    for k, vec in enumerate(vals(mode)):
                        for rr, poly in enumerate(vals(vec)):
                            X[k, rr] += poly_eval(vals(poly), p, eta)
                if np.max(np.abs(X.imag)) > 1e-9 * (1 + np.max(np.abs(X.real))):
                    raise AssertionError('closed form is not real')
                X = X.real
                checks = []
                for entry in vals(case['crow']['phi']):
                    checks.append(('phi', naming.node(entry[0]), entry[1], entry[2]))
                for j, c in enumerate(ng):
                    cu, ci = case['crow']['u'][j], case['crow']['i'][j]
                    checks.append(('u', ids[c['id']], cu[0], cu[1]))
                    checks.append(('i', ids[c['id']], ci[0], ci[1]))
                got_all = {}
                for kind, name, crow, drow in checks:
                    cvec = np.array([gauss(x) for x in vals(crow)]).real
                    dvec = np.array([gauss(x) for x in vals(drow)]).real
                    want = X @ cvec + Useq @ dvec
                    got = series(sol, kind, name, mism, ctxs)
                    if got is None:
                        continue
                    got_all[(kind, name)] = got
                    r.observations += len(want)
                    sc = max(np.max(np.abs(want)), np.max(np.abs(cvec)) if len(cvec) else 0, np.max(np.abs(dvec)) if len(dvec) else 0, 1e-6)
                    if got.shape != want.shape or not all(close(g, w_, sc, rtol=1e-8, atol_rel=1e-9) for g, w_ in zip(got, want)):
                        k_bad = next((k for k in range(min(len(got), len(want))) if not close(got[k], want[k], sc, rtol=1e-8, atol_rel=1e-9)), -1)
                        mism.append({'what': f'TransientSolution {kind}({name!r}) sample {k_bad} h={h}', 'got': repr(got[:8]), 'want': repr(want[:8]),
                                     'signature': f'transient:closed_form:{kind}', 'detail': ctxs})
                    tg.add('rest_start')
                    if abs(got[0]) > 1e-12 * sc:
                        mism.append({'what': f'TransientSolution {kind}({name!r}) at t=0', 'got': repr(got[0]), 'want': '0 (rest)', 'signature': 'transient:rest_start', 'detail': ctxs})
                # power = v * i at every sample
                for j, c in enumerate(ng):
                    name = ids[c['id']]
                    if ('u', name) in got_all and ('i', name) in got_all:
                        pw = series(sol, 'p', name, mism, ctxs)
                        if pw is not None:
                            r.observations += len(pw)
                            want = got_all[('u', name)] * got_all[('i', name)]
                            if not np.allclose(pw, want, rtol=1e-9, atol=1e-12 * (1 + np.max(np.abs(want)))):
                                mism.append({'what': f'TransientSolution.get_power({name!r})', 'got': repr(pw[:6]), 'want': repr(want[:6]), 'signature': 'transient:power', 'detail': ctxs})
        # ---------------- algebraic clauses on a longer run: KCL at every sample, settling to DC
        dc = case.get('dc')
        if dc is None and 'resp' in case:
            for _, rw in items(case['resp']):
                if rat(rw['w']) == 0:
                    dc = rw['r']
        lam_min = min(abs(eig.real))
        if lam_min <= 0:
            continue
        if scheme == 0 and not wexp and len(variants) > 1 and ctx.get('tier') != 'thorough':
            continue            # quick: the long run once per scenario, under the adversarial naming (and for the re-analysed circuit)
        N = 120
        T = 40.0 / lam_min
        t = np.linspace(0, T, N + 1)
        m = len(src_ids)
        U = np.ones((N + 1, m))
        U[0, :] = 0.0                      # step realised as a one-sample ramp
        amps = np.array([1.0 + 0.5 * q for q in range(m)])
        U = U * amps
        sol = run_transient(circuit, ids, src_ids, t / wu, U, mism, ctxs + ' long run')
        if sol is None:
            continue
        cur = {}
        for c in ng:
            s_ = series(sol, 'i', ids[c['id']], mism, ctxs)
            if s_ is not None:
                cur[c['id']] = s_
        if len(cur) == len(ng):
            tg.add('kcl')
            scale = max(max(np.max(np.abs(v)) for v in cur.values()), 1e-6)
            for nn in nodes:
                tot = sum(cur[c['id']] for c in ng if c['n1'] == nn) - sum(cur[c['id']] for c in ng if c['n2'] == nn)
                r.observations += len(tot)
                if np.max(np.abs(tot)) > 1e-8 * scale:
                    k_bad = int(np.argmax(np.abs(tot)))
                    mism.append({'what': f'Kirchhoff current law at node {naming.node(nn)} sample {k_bad}', 'got': repr(tot[k_bad]), 'want': '0', 'signature': 'transient:kcl', 'detail': ctxs})
        if dc:
            tg.add('settle_dc')
            dcs = vals(dc)
            for kind, key_list in (('phi', nodes), ('u', list(range(len(ng)))), ('i', list(range(len(ng))))):
                for key in key_list:
                    want = 0.0
                    for q in range(m):
                        dq = dcs[q]
                        if kind == 'phi':
                            val = {int(a[0]): gauss(a[1]) for a in vals(dq['phi'])}[key]
                        else:
                            val = gauss(dq[kind][key])
                        want += amps[q] * val.real
                    name = naming.node(key) if kind == 'phi' else ids[ng[key]['id']]
                    got = series(sol, kind, name, mism, ctxs)
                    if got is None:
                        continue
                    r.observations += 1
                    sc = max(abs(want), float(np.max(np.abs(got))), 1e-9)
                    if not close(got[-1], want, sc, rtol=1e-6, atol_rel=1e-6):
                        mism.append({'what': f'TransientSolution {kind}({name!r}) settled value at t={T}', 'got': repr(got[-1]), 'want': repr(want), 'signature': f'transient:settle:{kind}', 'detail': ctxs})
    r.tags = sorted(tg)
    return r
