"""C19 - malformed circuits are rejected, not reinterpreted."""
from __future__ import annotations
import copy, json
import numpy as np
from ..common import CaseResult, Naming, N_SCHEMES, stable_hash, gauss, rat, close, call, exc_sig, ensure_repo_import
from ..netbuild import make_element, project_network
from ..circbuild import make_component, f as fl
from .c16 import items

ensure_repo_import()
from CircuitCalculator.Network import elements as elm, loaders            # noqa: E402
from CircuitCalculator.Network.network import Network, Branch              # noqa: E402
from CircuitCalculator.Network.NodalAnalysis.bias_point_analysis import nodal_analysis_bias_point_solver  # noqa: E402
from CircuitCalculator.Circuit.circuit import Circuit                      # noqa: E402
from CircuitCalculator.Circuit import components as ccp, dump_load as cdl   # noqa: E402
from CircuitCalculator.Circuit.solution import DCSolution, ComplexSolution, TimeDomainSolution, FrequencyDomainSolution, TransientSolution  # noqa: E402
from CircuitCalculator.SignalProcessing import periodic_functions as pf     # noqa: E402

PROP = 'C19'
LEVEL = 'model_checking'
RULE = ('scenarios = every description of MC_C19 (networks, circuits, components, load elements, network / circuit description documents, declarative schematic lists, '
        'waveform names, queries) with any injected fault at any position; acceptance is decided by the specification\'s validity predicates; distinct by TLC '
        'fingerprint; non-trivial = every scenario (observed class "raised" / "returned" compared, accepted objects compared with the input)')


def models(tier, seed):
    return [dict(module='MC_C19.tla', cfg='MC_C19.cfg', batch=20)]


def required_tags(tier):
    fams = ['network', 'circuit', 'component', 'load', 'netdoc', 'circdoc', 'schematic', 'waveform', 'query']
    return [f'{f}:accept' for f in fams] + [f'{f}:reject' for f in fams]


def schematic_mod():
    import matplotlib
    matplotlib.use('Agg')
    from CircuitCalculator.SimpleSimulation import schematic
    return schematic


_SOL = {}


def solutions():
    """one valid circuit / network and every kind of solution object for it"""
    if _SOL:
        return _SOL
    comps = [ccp.dc_voltage_source('Vq', ('a', 'g'), V=2.0), ccp.resistor('Rq', ('a', 'b'), R=3.0), ccp.capacitor('Cq', ('b', 'g'), C=0.5), ccp.ground(nodes=('g',))]
    c = Circuit(comps)
    net = Network([Branch('a', 'g', elm.voltage_source('Vq', 2.0)), Branch('a', 'b', elm.resistor('Rq', 3.0)), Branch('b', 'g', elm.resistor('Cq', 5.0))], 'g')
    t = np.linspace(0, 1, 11)
    _SOL.update({'network': nodal_analysis_bias_point_solver(net), 'dc': DCSolution(c), 'complex': ComplexSolution(c, w=1.0),
                 'time_domain': TimeDomainSolution(c, w_max=0.0), 'frequency_domain': FrequencyDomainSolution(c, w_max=0.0),
                 'transient': TransientSolution(c, tin=t, input={'Vq': lambda tt: np.ones(tt.shape)})})
    return _SOL


def replay(case, ctx):
    sc, accept = case['sc'], case['accept']
    fam = sc['fam']
    h = stable_hash(sc)
    r = CaseResult(case_id=f'{h:x}')
    r.tags = [f'{fam}:{"accept" if accept else "reject"}']
    naming = Naming(h % N_SCHEMES)
    stored_ok = True
    detail = ''

    def attempt():
        nonlocal stored_ok, detail
        if fam == 'network':
            ids = {}
            brs = []
            for b in sc['br']:
                brs.append(Branch(naming.node(b['n1']), naming.node(b['n2']), make_element(naming.eid(b['id']), b['e'])))
            net = Network(list(brs), naming.node(sc['ref']))
            stored_ok = (len(net.branches) == len(brs) and all(b in net.branches for b in brs) and net.node_zero_label == naming.node(sc['ref']))      # as a collection: list order is not part of the property
            return net
        if fam == 'circuit':
            ids = {c['id']: naming.eid(c['id']) for c in sc['comps']}
            comps = [make_component(c, naming, ids) for c in sc['comps']]
            circ = Circuit(list(comps))
            stored_ok = len(circ.components) == len(comps) and all(c_ in circ.components for c_ in comps)
            return circ
        if fam == 'component':
            c = sc['comp']
            comp = make_component(c, naming, {c['id']: naming.eid(c['id'])})
            v = c['v']
            for k2, val in v.items():
                if k2 in ('u', 'wave'):
                    continue
                key = k2
                if key in comp.value:
                    stored_ok = stored_ok and close(comp.value[key], float(rat(val)), 1.0)
            stored_ok = stored_ok and comp.id == naming.eid(c['id']) and tuple(comp.nodes) == (naming.node(c['n1']), naming.node(c['n2']))
            return comp
        if fam == 'load':
            return elm.load('Ld', P=fl(sc['P']), V_ref=fl(sc['V_ref']), I_ref=fl(sc['I_ref']))
        if fam == 'netdoc':
            doc = []
            for en in sc['doc']:
                full = {'type': en['type'], 'id': naming.eid(en['id']), 'N1': '0', 'N2': str(en['id'] % 3 + 1), 'R': 2.0, 'G': 0.5, 'Z': {'real': 1.0, 'imag': 2.0},
                        'Y': {'real': 1.0, 'imag': -1.0}, 'I': {'real': 1.0, 'imag': 0.5}, 'V': {'abs': 2.0, 'phase': 0.3}}
                if en['type'] in ('real_current_source', 'real_voltage_source'):
                    full.update({'I': 1.5, 'V': 2.5, 'Y': 0.25, 'Z': 4.0})
                doc.append({k: v for k, v in full.items() if k in en['keys']})
            snap = json.dumps(doc, sort_keys=True)
            net = loaders.load_network(doc)
            stored_ok = json.dumps(doc, sort_keys=True) == snap and sorted(b.id for b in net.branches) == sorted(naming.eid(en['id']) for en in sc['doc'])
            return net
        if fam == 'circdoc':
            value = {'ok': {'R': fl(sc['R'])}, 'wrong': {'Q': fl(sc['R'])}, 'missing': {}}[sc['valuekeys']]
            bad = {'id': 'Xt', 'type': sc['type'], 'nodes': ('p', 'q'), 'value': value}
            bad = {k: v for k, v in bad.items() if k in sc['keys']}
            entries = [{'id': f'F{j}', 'type': 'resistor', 'nodes': ('p', 'q'), 'value': {'R': 1.0 + j}} for j in range(3)]
            entries[sc['pos'] - 1] = bad
            circ = cdl.undictify_circuit({'components': entries})
            stored_ok = sorted(c.id for c in circ.components) == sorted(e['id'] for e in entries)
            return circ
        if fam == 'schematic':
            sm = schematic_mod()
            elements = [{'type': 'voltage_source', 'name': 'V1', 'V': 2.0, 'direction': 'up'}, {'type': 'resistor', 'name': 'R1', 'R': 3.0, 'direction': 'right'},
                        {'type': 'resistor', 'name': 'R2', 'R': 4.0, 'direction': 'down'}]
            p = sc['pos'] - 1
            if sc['fault'] == 'unknown_type':
                elements[p] = dict(elements[p], type='memristor')
            elif sc['fault'] == 'missing_type':
                elements[p] = {k: v for k, v in elements[p].items() if k != 'type'}
            elif sc['fault'] == 'missing_argument':
                elements[p] = {k: v for k, v in elements[p].items() if k not in ('R', 'V')}
            import matplotlib.pyplot as plt
            try:
                s = sm.create_schematic({'unit': 3, 'elements': elements})
            finally:
                plt.close('all')
            stored_ok = sorted(getattr(e, 'name', None) for e in s.elements if hasattr(e, 'name'))[:3] == sorted(e['name'] for e in elements)
            return s
        if fam == 'waveform':
            cls = pf.periodic_function(sc['name'])
            stored_ok = cls.wavetype == sc['name']
            return cls
        if fam == 'query':
            sol = solutions()[sc['sol']]
            known = sc['known']
            if sc['q'] == 'potential':
                return sol.get_potential('b' if known else 'nope')
            arg = 'Rq' if known else 'nope'
            return {'voltage': sol.get_voltage, 'current': sol.get_current, 'power': sol.get_power}[sc['q']](arg)
        raise AssertionError(fam)

    got, e = call(attempt)
    if fam == 'query' and e is None and sc['sol'] == 'time_domain' and not sc['known']:
        # time functions are returned lazily only if the id was already resolved; a returned function for an unknown id is a value
        pass
    r.observations = 1
    raised = e is not None
    if isinstance(e, AssertionError):
        raise e
    sub = sc.get('comp', {}).get('kind') or sc.get('sol') or sc.get('fault') or ''
    if raised and accept:
        r.mismatches.append({'what': f'{fam} {sub}', 'got': repr(e), 'want': 'accepted (the specification\'s validity predicate holds)', 'signature': f'rejected_valid:{fam}:{sub}', 'detail': json.dumps(sc)[:600]})
    elif not raised and not accept:
        r.mismatches.append({'what': f'{fam} {sub}', 'got': 'returned ' + repr(got)[:200], 'want': 'an exception (the description is malformed)', 'signature': f'accepted_malformed:{fam}:{sub}',
                             'detail': json.dumps(sc)[:600]})
    elif not raised and not stored_ok:
        r.mismatches.append({'what': f'{fam} {sub}', 'got': repr(got)[:300], 'want': 'the accepted description stored unaltered', 'signature': f'altered:{fam}:{sub}', 'detail': json.dumps(sc)[:600]})
    return r
