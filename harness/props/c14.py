"""C14 - numbers written on a schematic are the true circuit quantities.

Scenario source: drawing programs of MC_C13 (TLC -simulate) whose intended netlist is well posed at w = 0 and / or w = 2, with the specification's exact solution.
For every solution kind of DiagramSolution (real, complex at w = 0, single-frequency complex, single-frequency time-domain) and display option, every voltage,
current, power and potential annotation in both directions is produced by the real library; the label text is tokenised and each number is judged by TLC
(Display!RenderVerdict, trace specification Trace_C18) against the exact quantity in the component's reference direction, negated iff reverse was requested."""
from __future__ import annotations
import math, cmath, json, random
import matplotlib
matplotlib.use('Agg')
from ..common import CaseResult, Naming, N_SCHEMES, stable_hash, gauss, rat, close, call, exc_sig, ensure_repo_import
from ..drawbuild import build_schematic
from ..render import parse_float_text
from ..trace import judge
from .c16 import items
from . import c18

ensure_repo_import()
from CircuitCalculator.SimpleCircuit import DiagramSolution as ds     # noqa: E402

PROP = 'C14'
RULE = ('drawing programs of MC_C13 (TLC -simulate) with a well-posed intended netlist; every annotation (voltage, current, power of every component in both directions, '
        'potential of every labelled node / ground) under every solution kind and display option of this run; each number of each label text is one event judged by TLC; '
        'non-trivial = at least one annotation judged')
ASSUME = ['small_scope', 'binary64', 'tlc', 'import', 'schemdraw']
DISPLAY = c18.TABLES['display']
SQ2 = math.sqrt(2)


def models(tier, seed):
    n = 2500 if tier == 'quick' else 30000
    return [dict(module='MC_C13.tla', cfg='MC_C14_sim.cfg', simulate='num=100000000', depth=9, seed=seed, max_cases=n, shards=12, batch=20),
            dict(module='MC_C15.tla', cfg='MC_C15_sim.cfg', simulate='num=100000000', depth=7, seed=seed + 3, max_cases=n // 3, shards=12, batch=20),
            # declarative descriptions with the exact solution at w = 2 as well (single-frequency complex and time-domain annotations)
            dict(module='MC_C15.tla', cfg='MC_C15_ac.cfg', simulate='num=100000000', depth=6, seed=seed + 5, max_cases=n // 4, shards=12, batch=20)]


def required_tags(tier):
    return ['real', 'complex:cartesian', 'complex:polar_rad', 'complex:polar_deg', 'sf_complex', 'sf_time', 'sf_time:sin', 'sf_time:hertz', 'reverse', 'voltage', 'current', 'power',
            'potential', 'reversed_source', 'judged', 'declarative', 'reverse_omitted', 'declarative:single_frequency']


def label_text(el):
    labs = getattr(el, '_userlabels', None)
    if labs:
        return labs[0].label
    return getattr(el, 'name', None)


def br(x):
    return c18.bracket(abs(x))


def float_event(text, unit, table, value, p, evs, what, sign_from_arrow=False, zero_scale=1.0):
    """one real number: returns problem string or None"""
    if sign_from_arrow:
        if not text or text[-1] not in '↑↓':
            return 'untokenisable'
        arrow, text = text[-1], text[:-1]
    pt = parse_float_text(text, unit, table)
    if pt is None:
        return 'untokenisable'
    if sign_from_arrow:
        pt['osgn'] = 1 if arrow == '↓' else -1
    if value == 0 or abs(value) < 1e-300:
        # an exact zero of the intended netlist (e.g. across a closed switch, which the library models as 1e-12 Ohm): anything negligible on the scale of the circuit is right
        shown = pt['digits'] * 10.0 ** (pt['oexp'] - pt['ndec'])
        return None if (pt['inf'] is False and shown <= 1e-9 * zero_scale) else 'nonzero_for_zero'
    m, e = br(value)
    evs.append(dict(kind='float', m=m, e10=e, sgn=1 if value > 0 else -1, p=p, M=max(table) if table else 16, what=what, text=text, **pt))
    return None


def complex_events(text, mode, unit, z, p, evs, what, scale):
    """Cartesian / polar complex label"""
    if abs(z) < 1e-9 * scale:
        return None       # an exact zero: any rendering of zero is fine; nothing to judge
    zr = 0.0 if abs(z.real) < 1e-9 * scale else z.real
    zi = 0.0 if abs(z.imag) < 1e-9 * scale else z.imag
    z = complex(zr, zi)
    mr, er = br(zr) if zr else (1, -30)
    mi, ei = br(zi) if zi else (1, -30)
    parts = c18.tokenise_complex(text, {'cartesian': 'cartesian', 'polar_rad': 'polar_rad', 'polar_deg': 'polar_deg'}[mode], unit, DISPLAY, z, p,
                                 mr, er, 1 if zr >= 0 else -1, mi, ei, 1 if zi >= 0 else -1)
    if parts is None:
        return 'untokenisable'
    if isinstance(parts, str):
        return 'part_' + parts
    for ev in parts:
        if ev['kind'] == 'float' and ev.get('m') == 1 and ev.get('e10') == -30:
            if ev['digits'] * 10.0 ** (ev['oexp'] - ev['ndec']) > 1e-9 * scale:
                return 'nonzero_for_zero'
            continue
        evs.append(dict(ev, what=what, text=text))
    return None


def replay(case, ctx):
    if 'ents' in case:
        return replay_declarative(case, ctx)
    prog, netlist = case['prog'], case['netlist']
    h = stable_hash(prog)
    r = CaseResult(case_id=f'{h:x}')
    tg = set()
    dc, ac = case['dc'], case['ac']
    if not (dc['ok'] or ac['ok']) or not netlist:
        r.skipped = 'ill_posed'
        r.nontrivial = False
        return r
    if any(it['rev'] for it in prog):
        tg.add('reversed_source')
    rng = random.Random(ctx.get('seed', 0) * 131 + h)
    scheme = h % N_SCHEMES
    naming = Naming(scheme)
    gnd_name = 'g0'
    d, names, label_names = build_schematic(prog, netlist, naming, rot=h % 4, scale=[1.0, 2.0][(h >> 3) % 2], gnd_name=gnd_name)
    ref = case['ref']
    # nodes that can be asked for by name: labelled classes and the ground
    node_names = {}
    per_class = {}
    for pair in (case['labels'].values() if isinstance(case['labels'], dict) else case['labels']):
        per_class.setdefault(pair[1], []).append(label_names[pair[0]])
    for cls, nms in per_class.items():
        if len(nms) == 1 and cls != case['gnd']:       # a node carrying two different names is contradictory: not asked for
            node_names[cls] = nms[0]
    if case['gnd'] >= 0 and case['gnd'] not in per_class:
        node_names[case['gnd']] = gnd_name
    ambiguous = False
    p = [2, 3, 4][h % 3]
    kinds = []
    if dc['ok']:
        kinds.append(('real', dict(precision=p), dc, 1.0))
        mode = ['cartesian', 'polar_rad', 'polar_deg'][(h >> 2) % 3]
        kinds.append(('complex:' + mode, dict(precision=p, polar=mode != 'cartesian', deg=mode == 'polar_deg'), dc, 1 / SQ2))
    if ac['ok']:
        mode = ['cartesian', 'polar_rad', 'polar_deg'][(h >> 4) % 3]
        kinds.append(('sf_complex:' + mode, dict(w=2.0, precision=p, polar=mode != 'cartesian', deg=mode == 'polar_deg'), ac, 1 / SQ2))
        kinds.append(('sf_time', dict(w=2.0, sin=bool((h >> 5) % 2), deg=bool((h >> 6) % 2), hertz=bool((h >> 7) % 2)), ac, 1 / SQ2))
    evs = []
    for kind, opts, sol, factor in kinds:
        base = kind.split(':')[0]
        fn = {'real': ds.real_solution, 'complex': ds.complex_solution, 'sf_complex': ds.single_frequency_complex_solution,
              'sf_time': ds.single_frequency_time_domain_steady_state_solution}[base]
        sds, e = call(lambda: fn(d, **opts))
        ctxs = f'{kind} {opts} scheme={scheme}'
        if e is not None:
            r.mismatches.append({'what': fn.__name__, 'got': repr(e), 'want': 'solution', 'signature': f'exc:{fn.__name__}:{exc_sig(e)}', 'detail': ctxs + f' prog={prog}'})
            continue
        tg.add(base if base != 'complex' else kind)
        if base == 'sf_complex':
            tg.add('complex:' + kind.split(':')[1])
        if base == 'sf_time':
            if opts['sin']:
                tg.add('sf_time:sin')
            if opts['hertz']:
                tg.add('sf_time:hertz')
        phi = {int(n): gauss(v) for n, v in items(sol['phi'])}
        phiref = phi.get(ref, 0j)
        U = [gauss(x) for x in sol['u']]
        I = [gauss(x) for x in sol['i']]
        vscale = max([abs(x) for x in U] + [abs(x - phiref) for x in phi.values()] + [1e-9]) * factor
        iscale = max([abs(x) for x in I] + [1e-9]) * factor
        vscale = max(vscale, iscale * 1e-3)
        iscale = max(iscale, vscale * 1e-3)        # exact zeros: anything below 1e-9 of the circuit's own scale is numerical noise
        pp = opts.get('precision', 3)

        def annotate(what, text, value, unit, scale, quantity):
            """value: exact complex quantity (already with factor and sign)"""
            r.observations += 1
            if text is None:
                return 'no_text'
            if base == 'real':
                if quantity == 'power':
                    return float_event(text, 'W', c18.DEFAULT_TABLE, value.real if abs(value.real) > 1e-9 * scale else 0.0, pp, evs, what, sign_from_arrow=True, zero_scale=scale)
                return float_event(text, unit, DISPLAY, value.real if abs(value.real) > 1e-9 * scale else 0.0, pp, evs, what, zero_scale=scale)
            if base in ('complex', 'sf_complex'):
                return complex_events(text, kind.split(':')[1], unit, value, pp, evs, what, scale)
            # sinusoid
            if abs(value) < 1e-9 * scale:
                return None
            m1, e1 = br(abs(value))
            parts = tokenise_sin(text, value, 3, 2.0, opts['sin'], opts['deg'], opts['hertz'], m1, e1, unit)
            if parts is None:
                return 'untokenisable'
            for ev in parts:
                evs.append(dict(ev, what=what, text=text))
            return None

        def report(prob, what, text, value):
            if prob:
                r.mismatches.append({'what': what, 'got': repr(text), 'want': f'annotation of {value!r}', 'signature': f'annotation:{prob}:{base}', 'detail': ctxs + f' prog={prog}'})

        for j, c in enumerate(netlist):
            name = names[c['id']]
            for rev in (False, True):
                if rev:
                    tg.add('reverse')
                sgn = -1 if rev else 1
                tg.update(['voltage', 'current', 'power'])
                for quantity, draw, val, unit, scale in (('voltage', sds.draw_voltage, U[j] * factor * sgn, 'V', vscale), ('current', sds.draw_current, I[j] * factor * sgn, 'A', iscale)):
                    el, e = call(draw, name, reverse=rev)
                    what = f'{kind} draw_{quantity}({name!r}, reverse={rev})'
                    if e is not None:
                        r.mismatches.append({'what': what, 'got': repr(e), 'want': 'label', 'signature': f'exc:draw_{quantity}:{exc_sig(e)}', 'detail': ctxs})
                        continue
                    text = label_text(el)
                    report(annotate(what, text, val, unit, scale, quantity), what, text, val)
                # power
                if base == 'real':
                    pw = complex(U[j].real * I[j].real) * sgn
                else:
                    pw = U[j] * I[j].conjugate() * factor * factor * sgn
                el, e = call(sds.draw_power, name, reverse=rev)
                what = f'{kind} draw_power({name!r}, reverse={rev})'
                if e is not None:
                    r.mismatches.append({'what': what, 'got': repr(e), 'want': 'label', 'signature': f'exc:draw_power:{exc_sig(e)}', 'detail': ctxs})
                else:
                    text = label_text(el)
                    report(annotate(what, text, pw, 'W', vscale * iscale, 'power'), what, text, pw)
        if not ambiguous:
            for cls, nname in node_names.items():
                if cls not in phi:
                    continue
                tg.add('potential')
                val = (phi[cls] - phiref) * factor
                if case['gnd'] < 0:
                    continue         # without a ground symbol the reference of the circuit is the first component's terminal: compare only with a ground
                el, e = call(sds.draw_potential, nname)
                what = f'{kind} draw_potential({nname!r})'
                if e is not None:
                    r.mismatches.append({'what': what, 'got': repr(e), 'want': 'label', 'signature': f'exc:draw_potential:{exc_sig(e)}', 'detail': ctxs})
                    continue
                text = label_text(el)
                report(annotate(what, text, val, 'V', vscale, 'potential'), what, text, val)
    for k, ev in enumerate(evs):
        ev['case'] = f'{h:x}'
    r.events = evs
    import matplotlib.pyplot as plt
    plt.close('all')
    r.tags = sorted(tg)
    r.nontrivial = bool(evs)
    return r


def tokenise_sin(text, z, p, w, sin, deg, hertz, m1, e1, unit):
    """c18.tokenise_sinusoid for an arbitrary unit"""
    t2 = text
    if unit != 'V':
        # swap the amplitude's unit for V so that the shared tokeniser applies
        head = text.split('·', 1)[0]
        if not head.endswith(unit):
            return None
        t2 = head[:-len(unit)] + 'V' + text[len(head):]
    return c18.tokenise_sinusoid(t2, z, p, w, sin, deg, hertz, m1, e1)


def post(events, tier, seed, ctx):
    evs = []
    for k, ev in enumerate(events):
        e2 = {kk: vv for kk, vv in ev.items() if kk not in ('what', 'text', 'case')}
        e2['tid'] = k + 1
        evs.append(e2)
    verdicts, info = judge('Trace_C18.tla', evs, shards=16, implicit_ok=True)
    counts = {}
    for k, ev in enumerate(events):
        v = verdicts[k + 1]['v']
        counts[v] = counts.get(v, 0) + 1
        if v.startswith('skipped'):
            r = CaseResult(case_id=f'ann{k}')
            r.skipped = v
            r.nontrivial = False
            yield (json.dumps({'annotation_event': ev}), r)
        elif v != 'ok':
            r = CaseResult(case_id=f'ann{k}')
            r.observations = 1
            r.mismatches.append({'what': ev['what'], 'got': repr(ev['text']), 'want': f'value {ev["sgn"] * ev["m"]}e{ev["e10"]} at precision {ev["p"]}', 'signature': f'annotation:{v}', 'detail': f'case {ev["case"]}'})
            yield (json.dumps({'annotation_event': ev}), r)
    r = CaseResult(case_id='judged')
    r.observations = len(events)
    r.tags = ['judged']
    yield (json.dumps({'judged': len(events)}), r)
    yield {'trace_validation': dict(info, verdicts=counts, module='Trace_C18.tla')}



def replay_declarative(case, ctx):
    """the declarative simulation description: create_schematic({... 'solution': {...}}) puts the label symbols into schematic.elements"""
    from .c15 import decl_elements, schematic_mod
    from CircuitCalculator.SimpleCircuit import Elements as elm
    prog, netlist = case['prog'], case['netlist']
    h = stable_hash(case['ents'])
    r = CaseResult(case_id=f'{h:x}')
    dc, ac = case['dc'], case.get('ac', {'ok': False})
    if not (dc['ok'] or ac['ok']) or not netlist:
        r.skipped = 'ill_posed'
        r.nontrivial = False
        return r
    tg = {'declarative'}
    elements, names, label_names, gnd_name, naming, scheme, unit = decl_elements(case)
    p = [2, 3, 4][h % 3]
    kinds_ok = (['dc', 'real', 'complex'] if dc['ok'] else []) + (['single_frequency', 'single_frequency'] if ac['ok'] else [])
    kind = kinds_ok[(h >> 2) % len(kinds_ok)]
    if kind.startswith('single_frequency'):
        return replay_declarative_ac(case, ctx, r, tg, kind, ac, elements, names, naming, scheme, unit, p, h)
    volt = [{'name': names[c['id']], 'reverse': bool((h >> (j + 2)) % 2)} for j, c in enumerate(netlist)]
    curr = [{'name': names[c['id']], 'reverse': bool((h >> (j + 5)) % 2)} for j, c in enumerate(netlist)]
    powr = [{'name': names[c['id']], 'reverse': bool((h >> (j + 7)) % 2)} for j, c in enumerate(netlist)]
    if (h >> 11) % 4:          # an entry without 'reverse' means: not reversed (the default of the draw functions)
        for lst in (volt, curr, powr):
            for d in lst:
                if not d['reverse']:
                    d.pop('reverse')
                    tg.add('reverse_omitted')
    sol_def = {'type': kind, 'precision': p, 'voltages': volt, 'currents': curr, 'powers': powr, 'w': 5.0, 'bogus': 1}
    import matplotlib.pyplot as plt
    try:
        sch, e = call(lambda: schematic_mod().create_schematic({'unit': unit, 'elements': elements, 'solution': sol_def}))
    finally:
        plt.close('all')
    ctxs = f'declarative {kind} precision={p} scheme={scheme}'
    if e is not None:
        r.mismatches.append({'what': 'create_schematic with solution', 'got': repr(e), 'want': 'schematic', 'signature': f'exc:create_schematic:{exc_sig(e)}', 'detail': ctxs + f' elements={elements}'})
        return r
    vl = [x for x in sch.elements if isinstance(x, elm.VoltageLabel)]
    cl = [x for x in sch.elements if isinstance(x, elm.CurrentLabel)]
    pl = [x for x in sch.elements if isinstance(x, elm.PowerLabel)]
    r.observations += 1
    if (len(vl), len(cl), len(pl)) != (len(volt), len(curr), len(powr)):
        r.mismatches.append({'what': 'label symbols in schematic.elements', 'got': repr((len(vl), len(cl), len(pl))), 'want': repr((len(volt), len(curr), len(powr))), 'signature': 'declarative:label_count', 'detail': ctxs})
        return r
    U = [gauss(x) for x in dc['u']]
    I = [gauss(x) for x in dc['i']]
    factor = 1.0 if kind != 'complex' else 1 / SQ2
    vscale = max([abs(x) for x in U] + [1e-9]) * factor
    iscale = max([abs(x) for x in I] + [1e-9]) * factor
    vscale, iscale = max(vscale, iscale * 1e-3), max(iscale, vscale * 1e-3)
    evs = []
    for j, c in enumerate(netlist):
        for quantity, labs, req, val, unit_, scale in (('voltage', vl, volt, U[j], 'V', vscale), ('current', cl, curr, I[j], 'A', iscale), ('power', pl, powr, None, 'W', vscale * iscale)):
            sgn = -1 if req[j].get('reverse') else 1
            text = label_text(labs[j])
            what = f'{ctxs} {quantity}({req[j]["name"]!r}, reverse={req[j].get("reverse")})'
            tg.update([quantity] + (['reverse'] if req[j].get('reverse') else []))
            r.observations += 1
            if kind == 'complex':
                v = (val * factor * sgn) if val is not None else U[j] * I[j].conjugate() * factor * factor * sgn
                prob = complex_events(text, 'cartesian', unit_, v, p, evs, what, scale)
            elif quantity == 'power':
                v = U[j].real * I[j].real * sgn
                prob = float_event(text, 'W', c18.DEFAULT_TABLE, v if abs(v) > 1e-9 * scale else 0.0, p, evs, what, sign_from_arrow=True, zero_scale=scale)
            else:
                v = val.real * sgn
                prob = float_event(text, unit_, DISPLAY, v if abs(v) > 1e-9 * scale else 0.0, p, evs, what, zero_scale=scale)
            if prob:
                r.mismatches.append({'what': what, 'got': repr(text), 'want': f'annotation of {v!r}', 'signature': f'annotation:{prob}:declarative', 'detail': f'elements={elements}'})
    for ev in evs:
        ev['case'] = f'{h:x}'
    r.events = evs
    r.tags = sorted(tg)
    r.nontrivial = bool(evs)
    return r


def replay_declarative_ac(case, ctx, r, tg, kind, ac, elements, names, naming, scheme, unit, p, h):
    """the declarative description with a single-frequency solution at w = 2.  The only declarative type that takes a frequency is
    'single_frequency_time_domain'; create_schematic maps it to DiagramSolution.single_frequency_complex_solution (complex annotations at w,
    Cartesian or polar) - sinusoidal time functions cannot be asked for declaratively.  Keys that solution does not take (sin, hertz) are
    filtered out by SolutionDefinition and must not matter."""
    from .c15 import schematic_mod
    from CircuitCalculator.SimpleCircuit import Elements as elm
    netlist = case['netlist']
    mode = ['cartesian', 'polar_rad', 'polar_deg'][(h >> 5) % 3]
    volt = [{'name': names[c['id']], 'reverse': bool((h >> (j + 2)) % 2)} for j, c in enumerate(netlist)]
    curr = [{'name': names[c['id']], 'reverse': bool((h >> (j + 5)) % 2)} for j, c in enumerate(netlist)]
    for lst in (volt, curr):
        for d_ in lst:
            if not d_['reverse'] and (h >> 11) % 2:
                d_.pop('reverse')
    sol_def = {'type': 'single_frequency_time_domain', 'w': 2.0, 'precision': p, 'polar': mode != 'cartesian', 'deg': mode == 'polar_deg', 'voltages': volt, 'currents': curr,
               'sin': bool((h >> 8) % 2), 'hertz': bool((h >> 9) % 2)}
    tg.add('declarative:single_frequency')
    tg.add('complex:' + mode)
    import matplotlib.pyplot as plt
    try:
        sch, e = call(lambda: schematic_mod().create_schematic({'unit': unit, 'elements': elements, 'solution': sol_def}))
    finally:
        plt.close('all')
    ctxs = f'declarative single_frequency w=2 {mode} precision={p} scheme={scheme}'
    if e is not None:
        r.mismatches.append({'what': 'create_schematic with solution', 'got': repr(e), 'want': 'schematic', 'signature': f'exc:create_schematic:{exc_sig(e)}', 'detail': ctxs + f' elements={elements}'})
        return r
    vl = [x for x in sch.elements if isinstance(x, elm.VoltageLabel)]
    cl = [x for x in sch.elements if isinstance(x, elm.CurrentLabel)]
    r.observations += 1
    if (len(vl), len(cl)) != (len(volt), len(curr)):
        r.mismatches.append({'what': 'label symbols in schematic.elements', 'got': repr((len(vl), len(cl))), 'want': repr((len(volt), len(curr))), 'signature': 'declarative:label_count', 'detail': ctxs})
        return r
    U = [gauss(x) for x in ac['u']]
    I = [gauss(x) for x in ac['i']]
    factor = 1 / SQ2
    vscale = max([abs(x) for x in U] + [1e-9]) * factor
    iscale = max([abs(x) for x in I] + [1e-9]) * factor
    vscale, iscale = max(vscale, iscale * 1e-3), max(iscale, vscale * 1e-3)
    evs = []
    for j, c in enumerate(netlist):
        for quantity, labs, req, val, unit_, scale in (('voltage', vl, volt, U[j], 'V', vscale), ('current', cl, curr, I[j], 'A', iscale)):
            sgn = -1 if req[j].get('reverse') else 1
            text = label_text(labs[j])
            what = f'{ctxs} {quantity}({req[j]["name"]!r}, reverse={req[j].get("reverse")})'
            tg.update([quantity] + (['reverse'] if req[j].get('reverse') else []))
            r.observations += 1
            v = val * factor * sgn
            prob = complex_events(text, mode, unit_, v, p, evs, what, scale)
            if prob:
                r.mismatches.append({'what': what, 'got': repr(text), 'want': f'annotation of {v!r}', 'signature': f'annotation:{prob}:declarative_ac', 'detail': f'elements={elements}'})
    for ev in evs:
        ev['case'] = f'{h:x}'
    r.events = evs
    r.tags = sorted(tg)
    r.nontrivial = bool(evs)
    return r
