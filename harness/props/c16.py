"""C16 - network simplifications are electrical identities."""
from __future__ import annotations
from ..common import CaseResult, Naming, N_SCHEMES, stable_hash, gauss, close, call, exc_sig, ensure_repo_import
from ..netbuild import build_network, UNITS, role_of, scales, project_network, make_element
from .c01 import tags_of
from .c04 import same_elem

ensure_repo_import()
from CircuitCalculator.Network.NodalAnalysis.bias_point_analysis import nodal_analysis_bias_point_solver  # noqa: E402
from CircuitCalculator.Network import transformers as trf  # noqa: E402

PROP = 'C16'
RULE = ('scenarios = reachable well-posed networks of MC_C16 containing short and/or open branches (chains, stars, shorts at the reference, '
        'parallel to other elements); every transformer of Network/transformers.py is applied with every keep list / element / reference of the '
        'configuration; distinct by TLC fingerprint; non-trivial = at least one operation result compared')


def models(tier, seed):
    if tier == 'quick':
        return [dict(module='MC_C16.tla', cfg='MC_C16_quick.cfg', batch=50), dict(module='MC_C16.tla', cfg='MC_C16_quick_open.cfg', batch=50)]
    return [dict(module='MC_C16.tla', cfg='MC_C16_thorough.cfg', batch=50),
            dict(module='MC_C16.tla', cfg='MC_C16_sim.cfg', simulate='num=100000000', depth=8, seed=seed, max_cases=20000, shards=12, batch=50)]


def required_tags(tier):
    return ['shorts>=2', 'chain_or_star', 'short_at_ref', 'keep:nonempty', 'open', 'disjoint', 'not_disjoint', 'op:rm_open', 'op:rm_elem', 'op:switch',
            'op:contract', 'op:rm_i', 'op:rm_v', 'op:passive', 'extreme_decades']


def items(x):
    """ToJson turns a function with domain 1..n into a list, any other into an object"""
    return list(x.items()) if isinstance(x, dict) else [(str(k + 1), v) for k, v in enumerate(x)]


def solve_obs(net, mism, what, ctxs):
    sol, e = call(nodal_analysis_bias_point_solver, net)
    if e is not None:
        mism.append({'what': what + ' solver', 'got': repr(e), 'want': 'solution', 'signature': f'exc:solve:{exc_sig(e)}', 'detail': ctxs})
        return None
    return sol


def replay(case, ctx):
    br, ref = case['br'], case['ref']
    h = stable_hash([br, ref])
    r = CaseResult(case_id=f'{h:x}')
    tg = tags_of(case)
    shorts = [b for b in br if b['e']['k'] == 'short_circuit']
    if len(shorts) >= 2:
        tg.add('shorts>=2')
        for a in shorts:
            for b in shorts:
                if a is not b and {a['n1'], a['n2']} & {b['n1'], b['n2']}:
                    tg.add('chain_or_star')
    if any(ref in (b['n1'], b['n2']) for b in shorts):
        tg.add('short_at_ref')
    if any(b['e']['k'] == 'open_circuit' for b in br):
        tg.add('open')
    variants = case.get('schemes') or [(0, 0, (0, 0)), ((h % (N_SCHEMES - 1)) + 1, (h >> 4) % 3, UNITS[(h >> 7) % len(UNITS)])]
    if 'schemes' not in case and ctx.get('tier') != 'thorough':
        variants = variants[:1] if h % 4 == 0 else variants[1:]
    if 'schemes' not in case and (ctx.get('tier') == 'thorough' or h % 3 == 0):
        # extreme decades (GOhm / nS, and mOhm): an element is an open circuit only when its admittance IS zero, a short only when its
        # impedance IS zero - however small or large the values of the others are
        variants = list(variants) + [((h >> 9) % N_SCHEMES, (h >> 6) % 3, [(9, 0), (-6, 0), (10, -3)][(h >> 12) % 3])]
    for scheme, mode, units in variants:
        one_variant(case, scheme, mode, tuple(units), r, tg, h)
    r.tags = sorted(tg)
    return r


def one_variant(case, scheme, mode, units, r, tg, h):
    br, ref = case['br'], case['ref']
    naming = Naming(scheme)
    zu, vu = 10.0 ** units[0], 10.0 ** units[1]
    ctxs = f'scheme={scheme} mode={mode} units={units}'
    mism = r.mismatches
    # beyond 1e6 the MNA matrix mixes entries of 1 (voltage-source rows) with admittances of 1e-9: binary64 then resolves the solution to
    # about 1e-7 of its scale only; structure is still compared exactly
    RT = 1e-9 if abs(units[0]) <= 6 else 1e-5
    if abs(units[0]) > 6:
        tg.add('extreme_decades')
    built, e = call(build_network, br, ref, naming, mode, units)
    if e is not None:
        mism.append({'what': 'Network(...)', 'got': repr(e), 'want': 'accepted', 'signature': f'exc:construct:{exc_sig(e)}', 'detail': ctxs})
        return
    net, ids = built
    byid = {b['id']: b for b in br}
    orig_elem = {bb.id: bb.element for bb in net.branches}
    node_idx = {naming.node(n): n for n in range(8)}
    before = project_network(net)
    ex0 = case['expect']
    phi0 = {int(n): gauss(v) * vu for n, v in items(ex0['phi'])}
    u0 = {br[k]['id']: gauss(v) * vu for k, v in enumerate(ex0['u'])}
    i0 = {br[k]['id']: gauss(v) * vu / zu for k, v in enumerate(ex0['i'])}
    s_v, s_i, _ = scales(br, [phi0.values(), u0.values()], [i0.values()], zu, vu)

    def unchanged(what):
        if project_network(net) != before:
            mism.append({'what': what + ' input network', 'got': 'changed', 'want': 'unchanged', 'signature': 'mutated:network', 'detail': ctxs})

    def cmp_solution(res_net, xs, what, sig, node_of_label=None, only_ids=None):
        """compare the code's solution of res_net with the specification's observation record xs"""
        sol = solve_obs(res_net, mism, what, ctxs)
        if sol is None:
            return
        phi = {int(n): gauss(v) * vu for n, v in items(xs['phi'])}
        sids = xs['ids']
        for lab in res_net.node_labels:
            n = node_idx[lab] if node_of_label is None else node_of_label(lab)
            if n not in phi:
                continue
            r.observations += 1
            got, e = call(sol.get_potential, lab)
            if e is not None or not close(got, phi[n], s_v, rtol=RT, atol_rel=RT * 1e-3):
                mism.append({'what': f'{what} get_potential({lab!r})', 'got': repr(e or got), 'want': repr(phi[n]), 'signature': f'value:{sig}:get_potential', 'detail': ctxs})
        for k, sid in enumerate(sids):
            bid = ids[sid]
            if bid not in res_net.branch_ids:
                continue
            for name, fn, want, sc in (('get_voltage', sol.get_voltage, gauss(xs['u'][k]) * vu, s_v), ('get_current', sol.get_current, gauss(xs['i'][k]) * vu / zu, s_i)):
                r.observations += 1
                got, e = call(fn, bid)
                if e is not None or not close(got, want, sc, rtol=RT, atol_rel=RT * 1e-3):
                    mism.append({'what': f'{what} {name}({bid!r})', 'got': repr(e or got), 'want': repr(want), 'signature': f'value:{sig}:{name}', 'detail': ctxs})

    def exact_structure(res_net, spec_net, want_ref, what, sig, altered=()):
        """the same branches (matched by identifier; the order of the list is not part of the property); elements untouched unless the operation names them"""
        got_by_id = {rb.id: rb for rb in res_net.branches}
        ok = (res_net.node_zero_label == naming.node(want_ref) and len(res_net.branches) == len(spec_net) and len(got_by_id) == len(res_net.branches)
              and all(ids[sb['id']] in got_by_id for sb in spec_net))
        if ok:
            for sb in spec_net:
                rb = got_by_id[ids[sb['id']]]
                if rb.node1 != naming.node(sb['n1']) or rb.node2 != naming.node(sb['n2']):
                    ok = False
                elif sb['e'] == byid[sb['id']]['e']:
                    ok = ok and rb.element == orig_elem[rb.id]
                else:
                    pe = project_network(type(res_net)([rb], rb.node1))['br'][0]
                    ok = ok and same_elem(pe, sb['e'], zu, vu)
        r.observations += 1
        if not ok:
            mism.append({'what': what + ' structure', 'got': repr(project_network(res_net)), 'want': repr(spec_net), 'signature': f'structure:{sig}', 'detail': ctxs})
        return ok

    def contraction_structure(res_net, pre_net_spec, classes, keep_ids, disjoint, what, sig):
        """membership of the code's result in the set the specification allows for a contraction of pre_net_spec"""
        cls = {int(n): c for n, c in items(classes)}
        pre = {ids[b['id']]: b for b in pre_net_spec}
        order = [ids[b['id']] for b in pre_net_spec]
        problems = []
        if res_net.node_zero_label != naming.node(case['ref']):
            problems.append('reference label changed')
        res_ids = [b.id for b in res_net.branches]
        if len(set(res_ids)) != len(res_ids) or any(x not in order for x in res_ids):
            problems.append('surviving branches are not distinct branches of the original network')      # (their order in the list is not part of the property)
        m = {}
        for rb in res_net.branches:
            sb = pre.get(rb.id)
            if sb is None:
                continue
            if sb['e'] == byid[sb['id']]['e']:
                if rb.element != orig_elem[rb.id]:
                    problems.append(f'element {rb.id} altered')
            else:
                pe = project_network(type(res_net)([rb], rb.node1))['br'][0]
                if not same_elem(pe, sb['e'], zu, vu):
                    problems.append(f'element {rb.id} is not the specified deactivated element')
            for on, lab in ((sb['n1'], rb.node1), (sb['n2'], rb.node2)):
                if lab not in node_idx:
                    problems.append(f'unknown node label {lab}')
                    continue
                if m.setdefault(on, lab) != lab:
                    problems.append(f'node {on} mapped to two labels')
                if cls[node_idx[lab]] != cls[on]:
                    problems.append(f'node {on} merged with node {node_idx[lab]} which no short connects it to')
        for bid, sb in pre.items():
            if bid not in res_ids:
                if cls[sb['n1']] != cls[sb['n2']]:
                    problems.append(f'branch {bid} dropped although its terminals are not joined by shorts')
        for on, lab in m.items():
            if cls[on] == cls[case['ref']] and False:
                pass
        if disjoint:
            for rb in res_net.branches:
                sb = pre.get(rb.id)
                if sb is not None and sb['e']['k'] == 'short_circuit' and sb['id'] not in keep_ids:
                    problems.append(f'non-exempt short {rb.id} survived although shorts are pairwise disjoint')
        for sid in keep_ids:
            bid = ids[sid]
            sb = pre.get(bid)
            if sb is not None and cls[sb['n1']] != cls[sb['n2']] and bid not in res_ids:
                problems.append(f'exempt element {bid} removed')
        r.observations += 1
        if problems:
            mism.append({'what': what + ' structure', 'got': '; '.join(sorted(set(problems))) + ' :: ' + repr(project_network(res_net)), 'want': 'an allowed contraction',
                         'signature': f'structure:{sig}', 'detail': ctxs})
            return None
        return cls

    def keep_list(keep_ids, variant):
        if variant % 2:
            return [make_element(ids[b['id']], b['e'], mode, zu, vu) for b in br if b['id'] in keep_ids]
        return [bb.element for bb in net.branches if any(ids[k] == bb.id for k in keep_ids)]

    # ---- remove_open_circuit_elements
    tg.add('op:rm_open')
    z, e = call(trf.remove_open_circuit_elements, net)
    if e is not None:
        mism.append({'what': 'remove_open_circuit_elements', 'got': repr(e), 'want': 'network', 'signature': f'exc:rm_open:{exc_sig(e)}', 'detail': ctxs})
    elif exact_structure(z, case['rm_open']['net'], ref, 'remove_open_circuit_elements', 'rm_open'):
        cmp_solution(z, case['rm_open']['x'], 'remove_open_circuit_elements', 'rm_open')
    unchanged('remove_open_circuit_elements')

    # ---- remove_element
    for sid, sub in items(case['rm_elem']):
        tg.add('op:rm_elem')
        what = f'remove_element({ids[int(sid)]!r})'
        z, e = call(trf.remove_element, net, ids[int(sid)])
        st = sub['res']['status']
        if st == 'invalid':
            continue            # the reference lost its last branch: rejection is C19's subject
        if e is not None:
            mism.append({'what': what, 'got': repr(e), 'want': 'network', 'signature': f'exc:rm_elem:{exc_sig(e)}', 'detail': ctxs})
            continue
        if exact_structure(z, sub['net'], ref, what, 'rm_elem') and st == 'ok':
            cmp_solution(z, sub['res']['x'], what, 'rm_elem')
        unchanged(what)

    # ---- switch_ground_node
    for g, xs in items(case['switch']):
        tg.add('op:switch')
        what = f'switch_ground_node({naming.node(int(g))!r})'
        z, e = call(trf.switch_ground_node, net, naming.node(int(g)))
        if e is not None:
            mism.append({'what': what, 'got': repr(e), 'want': 'network', 'signature': f'exc:switch:{exc_sig(e)}', 'detail': ctxs})
            continue
        if exact_structure(z, br, int(g), what, 'switch'):
            cmp_solution(z, xs, what, 'switch')
        unchanged(what)

    # ---- contraction family
    for key, sub in items(case['contract']):
        keep_ids = sub['keep']
        tg.add('op:contract')
        tg.add('disjoint' if sub['disjoint'] else 'not_disjoint')
        if keep_ids:
            tg.add('keep:nonempty')
        keep = keep_list(keep_ids, h >> 2)
        snap = list(keep)
        what = f'remove_short_circuit_elements(keep={[ids[k] for k in keep_ids]})'
        z, e = call(lambda: trf.remove_short_circuit_elements(net, keep=keep))
        if e is not None:
            mism.append({'what': what, 'got': repr(e), 'want': 'network', 'signature': f'exc:contract:{exc_sig(e)}', 'detail': ctxs})
            continue
        if keep != snap:
            mism.append({'what': what + ' keep list', 'got': repr(keep), 'want': repr(snap), 'signature': 'mutated:keep', 'detail': ctxs})
        cls = contraction_structure(z, br, sub['classes'], keep_ids, sub['disjoint'], what, 'contract')
        if cls is not None and len(z.branches) > 0 and 'empty' not in sub['x']:
            cmp_solution(z, sub['x'], what, 'contract', node_of_label=lambda lab: cls[node_idx[lab]])
        unchanged(what)

    for opname, field, fn in (('rm_i', 'rm_i', trf.remove_ideal_current_sources), ('rm_v', 'rm_v', trf.remove_ideal_voltage_sources), ('passive', 'passive', trf.passive_network)):
        for key, sub in items(case[field]):
            keep_ids = sub['keep']
            tg.add('op:' + opname)
            keep = keep_list(keep_ids, h >> 3)
            snap = list(keep)
            what = f'{fn.__name__}(keep={[ids[k] for k in keep_ids]})'
            st = sub['res']['status']
            z, e = call(lambda: fn(net, keep=keep))
            if st == 'invalid':
                continue
            if e is not None:
                mism.append({'what': what, 'got': repr(e), 'want': 'network', 'signature': f'exc:{opname}:{exc_sig(e)}', 'detail': ctxs})
                continue
            if keep != snap:
                mism.append({'what': what + ' keep list', 'got': repr(keep), 'want': repr(snap), 'signature': 'mutated:keep', 'detail': ctxs})
            if opname == 'rm_i':
                if exact_structure(z, sub['net'], ref, what, opname) and st == 'ok':
                    cmp_solution(z, sub['res']['x'], what, opname)
            else:
                # the network before the contraction step, as the specification has it
                pre = sub['zeroed'] if opname == 'rm_v' else None
                if pre is None:
                    # passive: zeroed version of the current-source-free network; rebuild from the canonical result + dropped ones
                    pre = sub.get('pre')
                if pre is None:
                    continue
                cls = contraction_structure(z, pre, sub['classes'], keep_ids, False, what, opname)
                if cls is not None and st == 'ok' and len(z.branches) > 0:
                    cmp_solution(z, sub['res']['x'], what, opname, node_of_label=lambda lab: cls[node_idx[lab]])
            unchanged(what)


# ------------------------------------------------------------------------------------------------------------------
# direction (B): random larger networks through the real transformers, judged by TLC (spec/trace/Trace_C16.tla)
def G(n, d=1):
    from fractions import Fraction
    q = Fraction(n, d)
    return [[q.numerator, q.denominator], [0, 1]]


def abstract_element(kind, val):
    z = [[0, 1], [0, 1]]
    if kind == 'R':
        return {'f': 'N', 'imm': G(val), 'src': z, 'k': 'resistor', 'a': [G(val)]}
    if kind == 'V':
        return {'f': 'N', 'imm': z, 'src': G(val), 'k': 'voltage_source', 'a': [G(val), z]}
    if kind == 'VL':
        return {'f': 'N', 'imm': G(val), 'src': G(val + 1), 'k': 'voltage_source', 'a': [G(val + 1), G(val)]}
    if kind == 'I':
        return {'f': 'T', 'imm': z, 'src': G(val), 'k': 'current_source', 'a': [G(val), z]}
    if kind == 'IL':
        return {'f': 'T', 'imm': G(1, val), 'src': G(val), 'k': 'current_source', 'a': [G(val), G(1, val)]}
    if kind == 'S':
        return {'f': 'N', 'imm': z, 'src': z, 'k': 'short_circuit', 'a': []}
    return {'f': 'T', 'imm': z, 'src': z, 'k': 'open_circuit', 'a': []}


def random_network(rng, nmax=6, bmax=7):
    n = rng.randint(3, nmax)
    nb = rng.randint(n - 1, bmax)
    br = []
    # a random spanning tree first (connected), then extra branches; many shorts
    nodes = list(range(n))
    rng.shuffle(nodes)
    pairs = [(nodes[i], rng.choice(nodes[:i])) for i in range(1, n)]
    while len(pairs) < nb:
        a, b = rng.sample(range(n), 2)
        pairs.append((a, b))
    for k, (a, b) in enumerate(pairs):
        kind = rng.choices(['S', 'R', 'V', 'VL', 'I', 'IL', 'O'], weights=[14, 5, 2, 1, 1, 1, 1])[0]
        if rng.random() < 0.5:
            a, b = b, a
        br.append({'id': k + 1, 'n1': a, 'n2': b, 'e': abstract_element(kind, rng.randint(1, 3))})
    return br, rng.randrange(n)


def frac_gauss(z):
    from fractions import Fraction
    z = complex(z)
    re, im = Fraction(z.real).limit_denominator(100000), Fraction(z.imag).limit_denominator(100000)
    return [[re.numerator, re.denominator], [im.numerator, im.denominator]]


def extra(tier, seed, ctx, pool):
    import random
    from ..trace import judge
    from ..netbuild import project_network
    rng = random.Random(seed * 31 + 16)
    n_nets = 240 if tier == "quick" else 3000
    events, meta = [], {}
    ops = [('remove_short_circuit_elements', trf.remove_short_circuit_elements), ('remove_ideal_voltage_sources', trf.remove_ideal_voltage_sources),
           ('passive_network', trf.passive_network), ('remove_open_circuit_elements', None), ('remove_ideal_current_sources', trf.remove_ideal_current_sources)]
    tid = 0
    for _ in range(n_nets):
        br, ref = random_network(rng)
        scheme = rng.randrange(N_SCHEMES)
        naming = Naming(scheme)
        try:
            net, ids = build_network(br, ref, naming, 0, (0, 0))
        except Exception:
            continue            # e.g. the reference touches nothing: not a valid network
        rid = {v: k for k, v in ids.items()}
        rnode = {naming.node(n): n for n in range(8)}
        exemptable = [b['id'] for b in br if b['e']['k'] == 'short_circuit' or b['e']['src'] != [[0, 1], [0, 1]]]
        for opname, fn in ops:
            keep_ids = sorted(rng.sample(exemptable, rng.randint(0, min(2, len(exemptable))))) if exemptable and rng.random() < 0.6 else []
            keep = [bb.element for bb in net.branches if rid[bb.id] in keep_ids]
            try:
                out = trf.remove_open_circuit_elements(net) if fn is None else fn(net, keep=keep)
            except Exception as e:
                # only a reference left without branches is a legitimate rejection; TLC cannot judge a missing result
                tid += 1
                meta[tid] = (opname, br, ref, keep_ids, scheme, repr(e))
                events.append({'tid': tid, 'op': 'raised', 'br': [], 'ref': 0, 'keep': [], 'out': [], 'outref': 0})
                continue
            pn = project_network(out)
            try:
                ob = [{'id': rid[b['id']], 'n1': rnode[b['n1']], 'n2': rnode[b['n2']], 'e': {'f': b['f'], 'imm': frac_gauss(b['imm']), 'src': frac_gauss(b['src'])}} for b in pn['br']]
                oref = rnode[pn['ref']]
            except KeyError as e:
                ob, oref = [], -1
            tid += 1
            meta[tid] = (opname, br, ref, keep_ids, scheme, None)
            events.append({'tid': tid, 'op': opname, 'ref': ref, 'keep': keep_ids, 'outref': oref,
                           'br': [{'id': b['id'], 'n1': b['n1'], 'n2': b['n2'], 'e': {'f': b['e']['f'], 'imm': b['e']['imm'], 'src': b['e']['src']}} for b in br],
                           'out': ob})
    real = [e for e in events if e['op'] != 'raised']
    verdicts, info = judge('Trace_C16.tla', real)
    counts = {}
    for ev in events:
        opname, br, ref, keep_ids, scheme, exc = meta[ev['tid']]
        r = CaseResult(case_id=f'trace{ev["tid"]}')
        r.tags = ['trace', 'op:' + opname.replace('remove_short_circuit_elements', 'contract')]
        r.observations = 1
        if ev['op'] == 'raised':
            # accepted only when the specification's result would be an invalid network (decided here conservatively: never for these ops
            # unless the reference lost all its branches) - counted, not judged
            r.skipped = 'raised:' + exc.split('(')[0]
            yield (json_dumps({'trace_event': ev['tid'], 'op': opname, 'br': br, 'ref': ref, 'keep': keep_ids}), r)
            continue
        v = verdicts[ev['tid']]['v']
        counts[v] = counts.get(v, 0) + 1
        if v.startswith('skipped'):
            r.skipped = v
        elif v != 'ok':
            r.mismatches.append({'what': f'{opname}(keep={keep_ids}) judged by Trace_C16', 'got': repr(ev['out']), 'want': 'a result the specification allows',
                                 'signature': f'trace:{opname}:{v}', 'detail': f'scheme={scheme}'})
        yield (json_dumps({'trace_event': ev['tid'], 'op': opname, 'br': br, 'ref': ref, 'keep': keep_ids, 'out': ev['out'], 'scheme': scheme}), r)
    yield {'trace_validation': dict(info, verdicts=counts, module='Trace_C16.tla')}


def json_dumps(x):
    import json
    return json.dumps(x)
