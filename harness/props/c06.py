"""C06 - port behaviour: driving-point impedance and Thevenin/Norton equivalents."""
from __future__ import annotations
import random
import importlib
from ..common import CaseResult, Naming, N_SCHEMES, stable_hash, gauss, rat, close, call, exc_sig, ensure_repo_import
from ..netbuild import build_network, UNITS, role_of, scales, project_network
from .c01 import tags_of
from .c16 import items

ensure_repo_import()
from CircuitCalculator.Network.NodalAnalysis import node_analysis as na  # noqa: E402
from CircuitCalculator.Network.NodalAnalysis import bias_point_analysis as bpa  # noqa: E402

PROP = 'C06'
RULE = ('scenarios = reachable well-posed networks of MC_C06 (ideal and lossy sources, opens producing floating parts, complex values); every ordered node pair, '
        'every element and every reference node is queried; distinct by TLC fingerprint; non-trivial = at least one port with a defined impedance compared')


def models(tier, seed):
    if tier == 'quick':
        return [dict(module='MC_C06.tla', cfg='MC_C06_quick.cfg', batch=100), dict(module='MC_C06.tla', cfg='MC_C06_thm.cfg', batch=100), dict(module='MC_C06c.tla', cfg='MC_C06c_quick.cfg', batch=50)]
    return [dict(module='MC_C06.tla', cfg='MC_C06_thorough.cfg', batch=100), dict(module='MC_C06.tla', cfg='MC_C06_thm_thorough.cfg', batch=100), dict(module='MC_C06c.tla', cfg='MC_C06c_thorough.cfg', batch=50)]


def required_tags(tier):
    return ['has_ideal_v', 'no_ideal_v', 'port:defined', 'port:undefined', 'elem:defined', 'k:open_circuit', 'complex', 'linear_src', 'thevenin', 'norton', 'circuit_sweep', 'resonance', 'dc_resistance', 'sweep_unsorted_with_repeat']


def equivalent_sources():
    return importlib.import_module('CircuitCalculator.Network.equivalent_sources')


def sweep_call(fn, args, warr, defined, salt, tg):
    """one sweep call over the frequencies 'defined' (indices into warr) - in ascending order, or (every second time) in a shuffled order with
    one frequency asked for twice: result[k] must be the impedance at w[k] whatever the order of w.  Returns ({index: value}, exception)"""
    if not defined:
        return {}, None
    idxs = list(defined)
    if salt % 2 and len(idxs) >= 2:
        rng = random.Random(salt)
        rng.shuffle(idxs)
        idxs.append(idxs[0])
        tg.add('sweep_unsorted_with_repeat')
    gotd, e = call(fn, *args, warr[idxs])
    if e is not None:
        return {j: None for j in defined}, e
    if len(gotd) != len(idxs):
        return {j: None for j in defined}, ValueError(f'sweep over {len(idxs)} frequencies returned {len(gotd)} values')
    got = {}
    for n, j in enumerate(idxs):
        if j in got and not close(gotd[n], got[j], abs(got[j]) + 1e-12, rtol=1e-12):
            return {j2: None for j2 in defined}, ValueError(f'the same frequency asked for twice in one sweep gave {got[j]} and {gotd[n]}')
        got.setdefault(j, gotd[n])
    return got, None


def replay(case, ctx):
    if 'sweep' in case:
        return replay_circuit(case, ctx)
    br, ref = case['br'], case['ref']
    h = stable_hash([br, ref])
    r = CaseResult(case_id=f'{h:x}')
    tg = tags_of({'br': br, 'ref': ref})
    has_v = any(role_of(b['e']) == 'V' for b in br)
    tg.add('has_ideal_v' if has_v else 'no_ideal_v')
    variants = case.get('schemes') or [(0, 0, (0, 0)), ((h % (N_SCHEMES - 1)) + 1, (h >> 4) % 3, UNITS[(h >> 7) % len(UNITS)])]
    if 'schemes' not in case and ctx.get('tier') != 'thorough':
        variants = variants[:1] if h % 4 == 0 else variants[1:]
    mism = r.mismatches
    for scheme, mode, units in variants:
        units = tuple(units)
        naming = Naming(scheme)
        zu, vu = 10.0 ** units[0], 10.0 ** units[1]
        ctxs = f'scheme={scheme} mode={mode} units={units}'
        built, e = call(build_network, br, ref, naming, mode, units)
        if e is not None:
            mism.append({'what': 'Network(...)', 'got': repr(e), 'want': 'accepted', 'signature': f'exc:construct:{exc_sig(e)}', 'detail': ctxs})
            continue
        net, ids = built
        before = project_network(net)
        phi = {int(n): gauss(v) * vu for n, v in items(case['phi'])}
        zs = [abs(gauss(p['r']['z'])) * zu for _, p in items(case['z']) if p['r']['d']]
        s_z = max(zs + [0.0])
        for b in br:
            imm = abs(gauss(b['e']['imm']))
            if imm:
                s_z = max(s_z, (imm if b['e']['f'] == 'N' else 1 / imm) * zu)
        # natural magnitudes: expected values, source values and what the largest impedance / admittance turns them into (an exact 0 among
        # all-zero expectations would otherwise get tolerance 0)
        s_v, s_i0, _ = scales(br, [list(phi.values())], [[]], zu, vu)

        def judge(what, got, e, spec, sigk):
            """spec = [r: the true port impedance or undefined, alt: the value if ideal voltage sources were ignored]"""
            r.observations += 1
            rr = spec['r']
            if not rr['d']:
                tg.add('port:undefined')
                return            # outside the domain (terminals not conductively connected / resonance)
            tg.add('port:defined' if sigk.startswith('open') else 'elem:defined')
            want = gauss(rr['z']) * zu
            if e is None and close(got, want, s_z):
                return
            alt = spec['alt']
            sig = f'value:{sigk}'
            if has_v:
                # precise recognition of the known deviation: the result is what one gets when ideal voltage sources are ignored (or that reading has no value)
                if not alt['d']:
                    sig += ':ideal_v_ignored_undefined'
                elif e is None and close(got, gauss(alt['z']) * zu, s_z):
                    sig += ':ideal_v_ignored'
            mism.append({'what': what, 'got': repr(e if e is not None else got), 'want': repr(want), 'signature': sig, 'detail': ctxs})

        for _, p in items(case['z']):
            a, b = p['a'], p['b']
            la, lb = naming.node(a), naming.node(b)
            got, e = call(na.open_circuit_impedance, net, la, lb)
            judge(f'open_circuit_impedance({la!r},{lb!r}) [nodes {a},{b}]', got, e, p, 'open_circuit_impedance')
            # open-circuit voltage, short-circuit current, equivalent sources
            voc = phi[a] - phi[b]
            r.observations += 1
            got, e = call(bpa.open_circuit_voltage, net, la, lb)
            if e is not None or not close(got, voc, s_v):
                mism.append({'what': f'open_circuit_voltage({la!r},{lb!r})', 'got': repr(e or got), 'want': repr(voc), 'signature': 'value:open_circuit_voltage', 'detail': ctxs})
            rr = p['r']
            if rr['d'] and gauss(rr['z']) != 0:
                zth = gauss(rr['z']) * zu
                isc = voc / zth
                s_i = max(abs(isc), s_v / abs(zth), s_i0)
                zok = close(call(na.open_circuit_impedance, net, la, lb)[0], zth, s_z)
                if zok:      # only meaningful where the impedance itself is right (else it repeats the finding above)
                    r.observations += 1
                    got, e = call(bpa.short_circuit_current, net, la, lb)
                    if e is not None or not close(got, isc, s_i):
                        mism.append({'what': f'short_circuit_current({la!r},{lb!r})', 'got': repr(e or got), 'want': repr(isc), 'signature': 'value:short_circuit_current', 'detail': ctxs})
                    tg.add('thevenin'); tg.add('norton')
                    eq, e = call(equivalent_sources)
                    if e is not None:
                        mism.append({'what': 'import CircuitCalculator.Network.equivalent_sources', 'got': repr(e), 'want': 'module', 'signature': f'exc:equivalent_sources:{exc_sig(e)}', 'detail': ctxs})
                    else:
                        tg.add('thevenin')
                        th, e = call(eq.TheveninEquivalentSource, net, la, lb)
                        r.observations += 1
                        if e is not None or not (close(th.U, voc, s_v) and close(th.Z, zth, s_z)):
                            mism.append({'what': f'TheveninEquivalentSource({la!r},{lb!r})', 'got': repr(e or (th.U, th.Z)), 'want': repr((voc, zth)), 'signature': 'value:thevenin', 'detail': ctxs})
                        tg.add('norton')
                        no, e = call(eq.NortenEquivalentSource, net, la, lb)
                        r.observations += 1
                        if e is not None or not (close(no.I, isc, s_i) and close(no.Y, 1 / zth, 1 / abs(zth))):
                            mism.append({'what': f'NortenEquivalentSource({la!r},{lb!r})', 'got': repr(e or (no.I, no.Y)), 'want': repr((isc, 1 / zth)), 'signature': 'value:norton', 'detail': ctxs})
        for k, p in items(case['ez']):
            b = br[int(k) - 1]
            bid = ids[b['id']]
            got, e = call(na.element_impedance, net, bid)
            judge(f'element_impedance({bid!r}) [branch {k} {b["e"]["k"]}]', got, e, p, 'element_impedance')
        if project_network(net) != before:
            mism.append({'what': 'input network', 'got': 'changed', 'want': 'unchanged', 'signature': 'mutated:network', 'detail': ctxs})
    r.tags = sorted(tg)
    return r



def replay_circuit(case, ctx):
    """Circuit.impedance.* over a frequency sweep against PortZ of NetAt(circuit, w)"""
    import numpy as np
    from ..circbuild import build_circuit
    from CircuitCalculator.Circuit import impedance as cimp
    comps = case['comps']
    h = stable_hash(comps)
    r = CaseResult(case_id=f'{h:x}')
    tg = {'circuit_sweep'}
    naming = Naming(h % N_SCHEMES)
    mism = r.mismatches
    built, e = call(build_circuit, comps, naming, 0, (0, 0, 0))
    if e is not None:
        mism.append({'what': 'Circuit(...)', 'got': repr(e), 'want': 'accepted', 'signature': f'exc:construct:{exc_sig(e)}', 'detail': ''})
        return r
    circuit, ids = built
    ng = [c for c in comps if c['kind'] != 'ground']
    sweep = [sw for _, sw in items(case['sweep'])]
    ws = [float(rat(sw['w'])) for sw in sweep]
    warr = np.array(ws)
    kinds = {c['kind'] for c in ng}
    zmax = 10.0
    ctxs = f'scheme={naming.scheme} w={ws}'
    # node pairs
    pairs = [(p['a'], p['b']) for _, p in items(sweep[0]['z'])]
    for k, (a, b) in enumerate(pairs):
        for (x, y, field) in ((a, b, 'r'), (b, a, 'rba')):
            defined = [j for j, sw in enumerate(sweep) if [p for _, p in items(sw['z'])][k][field]['d']]
            # the sweep restricted to the frequencies at which the port impedance is defined (one undefined frequency would fail the whole call)
            got, e = sweep_call(cimp.open_circuit_impedance, (circuit, naming.node(x), naming.node(y)), warr, defined, h + k, tg)
            for j, sw in enumerate(sweep):
                spec = [p for _, p in items(sw['z'])][k][field]
                if not spec['d']:
                    continue
                want = gauss(spec['z'])
                r.observations += 1
                if 'inductance' in kinds and 'capacitor' in kinds and ws[j] == 1.0:
                    tg.add('resonance')
                if e is not None or not close(got[j], want, max(abs(want), zmax), rtol=1e-8):
                    mism.append({'what': f'Circuit.impedance.open_circuit_impedance({naming.node(x)!r},{naming.node(y)!r}) at w={ws[j]}', 'got': repr(e if e is not None else complex(got[j])), 'want': repr(want),
                                 'signature': 'value:circuit_open_circuit_impedance', 'detail': ctxs})
                    break
            if field == 'r' and ws[0] == 0.0:
                spec0 = [p for _, p in items(sweep[0]['z'])][k]['r']
                if spec0['d']:
                    tg.add('dc_resistance')
                    got0, e0 = call(cimp.open_circuit_dc_resistance, circuit, naming.node(a), naming.node(b))
                    r.observations += 1
                    if e0 is not None or not close(got0, gauss(spec0['z']).real, max(abs(gauss(spec0['z'])), zmax)):
                        mism.append({'what': f'open_circuit_dc_resistance({naming.node(a)!r},{naming.node(b)!r})', 'got': repr(e0 if e0 is not None else got0), 'want': repr(gauss(spec0['z']).real),
                                     'signature': 'value:circuit_dc_resistance', 'detail': ctxs})
    for i, c in enumerate(ng):
        defined = [j for j, sw in enumerate(sweep) if sw['ez'][i]['d']]
        got, e = sweep_call(cimp.element_impedance, (circuit, ids[c['id']]), warr, defined, h + 31 * i, tg)
        for j, sw in enumerate(sweep):
            spec = sw['ez'][i]
            if not spec['d']:
                continue
            want = gauss(spec['z'])
            r.observations += 1
            if e is not None or not close(got[j], want, max(abs(want), zmax), rtol=1e-8):
                mism.append({'what': f'Circuit.impedance.element_impedance({ids[c["id"]]!r}) at w={ws[j]}', 'got': repr(e if e is not None else complex(got[j])), 'want': repr(want),
                             'signature': 'value:circuit_element_impedance', 'detail': ctxs})
                break
    r.tags = sorted(tg)
    return r
