"""C10 - the state-space model is an exact realisation of the circuit (and the conformance part of C11: the state matrix itself)."""
from __future__ import annotations
import numpy as np
from ..common import CaseResult, Naming, N_SCHEMES, stable_hash, gauss, rat, close, call, exc_sig, ensure_repo_import
from ..circbuild import build_circuit
from .c16 import items

ensure_repo_import()
from CircuitCalculator.Circuit.circuit import transform_circuit                                   # noqa: E402
from CircuitCalculator.Circuit import state_space_model as cssm                                   # noqa: E402
from CircuitCalculator.Network.NodalAnalysis.state_space_model import nodal_state_space_model     # noqa: E402

PROP = 'C10'
RULE = ('scenarios = every non-degenerate RLC + ideal-source circuit of MC_C10 (substituted network well posed, det A != 0, decided exactly), with the exact phasor '
        'response of every output to every source at every frequency of the sweep; each is replayed under adversarial naming schemes (all relative alphabetical orders of '
        'current-source / inductor / voltage-source identifiers) and decade units; distinct by TLC fingerprint; non-trivial = every scenario')
UNITS3 = [(0, 0, 0), (3, 0, 0), (-2, 0, 1), (0, 0, -2), (2, 0, 3)]


def models(tier, seed):
    return [dict(module='MC_C10.tla', cfg=f'MC_C10_{tier}.cfg', batch=20), dict(module='MC_C10.tla', cfg='MC_C10_quick2.cfg', batch=20)] + ([dict(module='MC_C10.tla', cfg='MC_C10_quick3.cfg', batch=20)] if tier == 'thorough' else [dict(module='MC_C10.tla', cfg='MC_C10_one3.cfg', batch=20)])


def required_tags(tier):
    return ['states:1', 'states:2', 'sources:2', 'w=0', 'k:capacitor', 'k:inductance', 'k:dc_current_source', 'k:dc_voltage_source', 'scheme:Is<L<Vs', 'scheme:other',
            'inductors>=2', 'wrapper', 'nodal', 'reanalysed_with_other_values', 'small_capacitances']


def transfer(A, B, C, D, w):
    n = A.shape[0]
    return C @ np.linalg.solve(1j * w * np.eye(n) - A, B.astype(complex)) + D


def build_models(case, scheme, turns, units, mism, ctxs):
    comps = case['comps']
    naming = Naming(scheme)
    built, e = call(build_circuit, comps, naming, turns, units)
    if e is not None:
        mism.append({'what': 'Circuit(...)', 'got': repr(e), 'want': 'accepted', 'signature': f'exc:construct:{exc_sig(e)}', 'detail': ctxs})
        return None
    circuit, ids = built
    ng = [c for c in comps if c['kind'] != 'ground']
    nodes = sorted({c['n1'] for c in ng} | {c['n2'] for c in ng})
    return circuit, ids, ng, nodes, naming


def compare_tf(case, circuit, ids, ng, nodes, naming, units, mism, ctxs, r, tg, which=('nodal', 'wrapper')):
    zu, vu, wu = (10.0 ** x for x in units)
    src_ids = [ids[s] for s in case['sources']]
    src_kind = {ids[c['id']]: c['kind'] for c in ng}
    c_values = {ids[c['id']]: float(c_.value['C']) for c, c_ in zip(ng, [circuit[ids[c['id']]] for c in ng]) if c['kind'] == 'capacitor'}
    l_values = {ids[c['id']]: float(c_.value['L']) for c, c_ in zip(ng, [circuit[ids[c['id']]] for c in ng]) if c['kind'] == 'inductance'}
    pot = [naming.node(n) for n in nodes]
    cids = [ids[c['id']] for c in ng]
    out = {}
    if 'nodal' in which:
        tg.add('nodal')
        ssm, e = call(lambda: nodal_state_space_model(transform_circuit(circuit, w=0), c_values=dict(c_values), l_values=dict(l_values)))
        if e is not None:
            mism.append({'what': 'nodal_state_space_model', 'got': repr(e), 'want': 'model', 'signature': f'exc:nodal_state_space_model:{exc_sig(e)}', 'detail': ctxs})
        else:
            rows, e = call(lambda: (np.vstack([ssm.c_row_for_potential(p) for p in pot] + [np.atleast_2d(ssm.c_row_voltage(i)) for i in cids] + [np.atleast_2d(ssm.c_row_current(i)) for i in cids]),
                                    np.vstack([ssm.d_row_for_potential(p) for p in pot] + [np.atleast_2d(ssm.d_row_voltage(i)) for i in cids] + [np.atleast_2d(ssm.d_row_current(i)) for i in cids])))
            if e is not None:
                mism.append({'what': 'c_row_* / d_row_*', 'got': repr(e), 'want': 'rows', 'signature': f'exc:rows:{exc_sig(e)}', 'detail': ctxs})
            else:
                out['nodal'] = (np.asarray(ssm.A, float), np.asarray(ssm.B, float), rows[0], rows[1], list(ssm.sources))
    published = out['nodal'][4] if 'nodal' in out else None
    if 'wrapper' in which:
        tg.add('wrapper')
        m, e = call(lambda: cssm.state_space_model(circuit, potential_nodes=list(pot), voltage_ids=list(cids), current_ids=list(cids)))
        if e is not None:
            mism.append({'what': 'Circuit.state_space_model.state_space_model', 'got': repr(e), 'want': 'model', 'signature': f'exc:state_space_model:{exc_sig(e)}', 'detail': ctxs})
        elif published is not None:
            out['wrapper'] = (np.asarray(m.A, float), np.asarray(m.B, float), np.asarray(m.C, float), np.asarray(m.D, float), published)
    n = len(case['states'])
    for name, (A, B, C, D, sources) in out.items():
        r.observations += 1
        if A.shape != (n, n) or B.shape != (n, len(src_ids)):
            mism.append({'what': f'{name}: dimensions', 'got': repr((A.shape, B.shape)), 'want': repr(((n, n), (n, len(src_ids)))), 'signature': f'dimension:{name}', 'detail': ctxs})
            continue
        if sorted(sources) != sorted(src_ids):
            mism.append({'what': f'{name}: published sources', 'got': repr(sources), 'want': repr(src_ids), 'signature': f'sources:{name}', 'detail': ctxs})
            continue
        for _, rw in items(case['resp']):
            w = rat(rw['w'])
            if w == 0:
                tg.add('w=0')
            H, e = call(transfer, A, B, C, D, float(w) * wu)
            if e is not None:
                mism.append({'what': f'{name}: C (jwI-A)^-1 B + D at w={float(w) * wu}', 'got': repr(e), 'want': 'finite', 'signature': f'exc:transfer:{name}:{exc_sig(e)}', 'detail': ctxs})
                continue
            for q, rq in enumerate(rw['r'] if isinstance(rw['r'], list) else [v for _, v in items(rw['r'])]):
                sid = src_ids[q]
                col = sources.index(sid)
                is_v = src_kind[sid] == 'dc_voltage_source'
                fv = 1.0 if is_v else zu          # volts per unit input
                fi = 1.0 / zu if is_v else 1.0    # amperes per unit input
                phi = {int(a[0]): gauss(a[1]) * fv for a in (rq['phi'].values() if isinstance(rq['phi'], dict) else rq['phi'])}
                want = [phi[nn] for nn in nodes] + [gauss(x) * fv for x in rq['u']] + [gauss(x) * fi for x in rq['i']]
                sv = max([abs(x) for x in want[:len(nodes) + len(ng)]] + [fv * 1e-3])
                si = max([abs(x) for x in want[len(nodes) + len(ng):]] + [fi * 1e-3])
                for k, wv in enumerate(want):
                    r.observations += 1
                    sc = sv if k < len(nodes) + len(ng) else si
                    if not close(H[k, col], wv, sc, rtol=1e-8, atol_rel=1e-9):
                        kind = 'potential' if k < len(nodes) else ('voltage' if k < len(nodes) + len(ng) else 'current')
                        which_c = '' if kind == 'potential' else ':' + ng[(k - len(nodes)) % len(ng)]['kind']
                        mism.append({'what': f'{name}: H(j{float(w) * wu}) output {k} ({kind}{which_c}) <- source {sid}', 'got': repr(complex(H[k, col])), 'want': repr(wv),
                                     'signature': f'transfer:{name}:{kind}{which_c}', 'detail': ctxs})
    return out


def scheme_is_default_order(scheme):
    from ..common import ID_PREFIX, NODE_NAMES
    p = ID_PREFIX[(scheme // len(NODE_NAMES)) % len(ID_PREFIX)]
    return p['I'] < p['L'] < p['V']


def replay(case, ctx):
    comps = case['comps']
    h = stable_hash(comps)
    r = CaseResult(case_id=f'{h:x}')
    if ctx.get('tier') != 'thorough' and sum(1 for c in comps if c['kind'] != 'ground') >= 5 and sum(1 for c in comps if c['kind'] == 'capacitor') >= 2 and h % 4:
        r.skipped = 'sampled_out_in_quick_tier'
        r.nontrivial = False
        return r
    tg = {'k:' + c['kind'] for c in comps}
    tg.add(f'states:{min(len(case["states"]), 2)}')
    if len(case['sources']) >= 2:
        tg.add('sources:2')
    if sum(1 for c in comps if c['kind'] == 'inductance') >= 2:
        tg.add('inductors>=2')
    variants = case.get('schemes')
    if variants is None:
        # the second variant takes its within-role index table from the hash as well (common.ID_PERMS): two capacitors / inductors / sources of one kind
        # listed next to each other come in alphabetical order under one table and against it under another
        variants = [(0, 0, (0, 0, 0)), ((h % (N_SCHEMES - 1)) + 1 + N_SCHEMES * (1 + (h >> 13) % 2), 0, UNITS3[(h >> 8) % len(UNITS3)])]
        # the same circuit again, same names, other capacitances / inductances (frequency unit): an analysis must not remember the previous one
        variants.append((0, 0, (0, 0, [1, -1, 2][h % 3])))
        # realistic decades (kOhm - nF - MHz, ...): capacitances and inductances far below 1, entries of A over many decades
        if ctx.get('tier') == 'thorough' or h % 2 == 0:
            variants.append((((h >> 5) % N_SCHEMES) + N_SCHEMES * ((h >> 14) % 3), 0, [(3, 0, 6), (2, -3, 5), (0, 3, 8), (6, 0, 2)][(h >> 9) % 4]))
        if ctx.get('tier') == 'thorough':
            variants.append((((h >> 3) % (N_SCHEMES - 1)) + 1 + N_SCHEMES * 2, 0, UNITS3[(h >> 11) % len(UNITS3)]))
    for scheme, turns, units in variants:
        units = tuple(units)
        tg.add('scheme:Is<L<Vs' if scheme_is_default_order(scheme) else 'scheme:other')
        if scheme == 0 and units != (0, 0, 0):
            tg.add('reanalysed_with_other_values')
        if units[2] >= 5:
            tg.add('small_capacitances')
        ctxs = f'scheme={scheme} units={units}'
        b = build_models(case, scheme, turns, units, r.mismatches, ctxs)
        if b is None:
            continue
        circuit, ids, ng, nodes, naming = b
        compare_tf(case, circuit, ids, ng, nodes, naming, units, r.mismatches, ctxs, r, tg)
    r.tags = sorted(tg)
    return r
