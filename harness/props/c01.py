"""C01 - the steady-state solution obeys Kirchhoff's laws and every element law."""
from __future__ import annotations
import itertools, os
from ..common import (CaseResult, Naming, N_SCHEMES, stable_hash, gauss, close, call, exc_sig, ensure_repo_import)
from ..netbuild import build_network, UNITS, role_of, scales

ensure_repo_import()
from CircuitCalculator.Network.NodalAnalysis.bias_point_analysis import nodal_analysis_bias_point_solver, open_circuit_voltage  # noqa: E402

PROP = 'C01'
RULE = ('scenarios = reachable states of MC_C01 (all connected networks over <= MaxN nodes and <= MaxB branches, every element kind, '
        'both terminal orders, parallel branches, every reference node); distinct by TLC fingerprint; non-trivial = well posed '
        '(MNA determinant non-zero, decided exactly in the specification) and compared at every node and branch')


def models(tier, seed):
    if tier == 'quick':
        return [dict(module='MC_C01.tla', cfg='MC_C01_quick.cfg'),
                dict(module='MC_C01.tla', cfg='MC_C01_loads.cfg')]       # loads given by a reference current (and by a reference voltage) among sources
    # thorough: the exhaustive model of the quick tier (known to stay within exact 32-bit arithmetic) plus random walks over larger networks
    # (5 real branches on 4 nodes; 4 complex branches); a walk that leaves the arithmetic range ends and is restarted with a fresh seed
    return [dict(module='MC_C01.tla', cfg='MC_C01_quick.cfg'), dict(module='MC_C01.tla', cfg='MC_C01_loads.cfg'),
            dict(module='MC_C01.tla', cfg='MC_C01_sim.cfg', simulate='num=100000000', depth=8, seed=seed, max_cases=150000, shards=12),
            dict(module='MC_C01.tla', cfg='MC_C01_simc.cfg', simulate='num=100000000', depth=6, seed=seed + 1, max_cases=60000, shards=12)]


def required_tags(tier):
    return ['planted', 'shipped_example', 'repository_test_solve', 'branches>=10', 'parallel', 'ref_only_vsrc', 'linear_src', 'reversed', 'complex', 'k:load_v', 'k:voltage_source', 'k:current_source', 'k:short_circuit', 'k:open_circuit']


def tags_of(case):
    br, ref = case['br'], case['ref']
    t = set()
    pairs = [frozenset((b['n1'], b['n2'])) for b in br]
    if len(set(pairs)) < len(pairs):
        t.add('parallel')
    at_ref = [b for b in br if ref in (b['n1'], b['n2'])]
    if at_ref and all(role_of(b['e']) == 'V' for b in at_ref):
        t.add('ref_only_vsrc')
    for b in br:
        e = b['e']
        t.add('k:' + e['k'])
        if e['src'] != [[0, 1], [0, 1]] and e['imm'] != [[0, 1], [0, 1]]:
            t.add('linear_src')
        if b['n1'] > b['n2']:
            t.add('reversed')
        if e['imm'][1][0] != 0 or e['src'][1][0] != 0:
            t.add('complex')
    return t


def compare_solution(case, scheme, mode, units, mism, order=None):
    """build, solve, compare every observation; returns number of observations"""
    br, ref, ex = case['br'], case['ref'], case['expect']
    naming = Naming(scheme)
    zu, vu = 10.0 ** units[0], 10.0 ** units[1]
    ctxs = f'scheme={scheme} mode={mode} units={units}'
    tg = tags_of(case)
    suffix = ':ref_only_vsrc' if 'ref_only_vsrc' in tg else ''
    built, e = call(build_network, br, ref, naming, mode, units, order)
    if e is not None:
        mism.append({'what': 'Network(...)', 'got': repr(e), 'want': 'valid network accepted', 'signature': f'exc:construct:{exc_sig(e)}', 'detail': ctxs})
        return 1
    net, ids = built
    sol, e = call(nodal_analysis_bias_point_solver, net)
    if e is not None:
        mism.append({'what': 'nodal_analysis_bias_point_solver', 'got': repr(e), 'want': 'solution of a well-posed network',
                     'signature': f'exc:solve:{exc_sig(e)}{suffix}', 'detail': ctxs})
        return 1
    phi = {int(n): gauss(v) * vu for n, v in ex['phi'].items()}
    u = [gauss(v) * vu for v in ex['u']]
    i = [gauss(v) * vu / zu for v in ex['i']]
    p = [gauss(v) * vu * vu / zu for v in ex['p']]
    s_v, s_i, s_p = scales(br, [phi.values(), u], [i], zu, vu)
    n_obs = 0

    def chk(what, fn, want, scale, sigk):
        nonlocal n_obs
        n_obs += 1
        got, e = call(fn)
        if e is not None:
            mism.append({'what': what, 'got': repr(e), 'want': repr(want), 'signature': f'exc:{sigk}:{exc_sig(e)}{suffix}', 'detail': ctxs})
        elif not close(got, want, scale):
            mism.append({'what': what, 'got': repr(complex(got)), 'want': repr(want), 'signature': f'value:{sigk}{suffix}', 'detail': ctxs})

    for n, want in phi.items():
        chk(f'get_potential({naming.node(n)!r}) [node {n}]', lambda n=n: sol.get_potential(naming.node(n)), want, s_v, 'get_potential')
    for k, b in enumerate(br):
        bid = ids[b['id']]
        role = role_of(b['e'])
        chk(f'get_voltage({bid!r}) [branch {k + 1} {b["e"]["k"]}]', lambda bid=bid: sol.get_voltage(bid), u[k], s_v, 'get_voltage')
        chk(f'get_current({bid!r}) [branch {k + 1} {b["e"]["k"]}]', lambda bid=bid: sol.get_current(bid), i[k], s_i, f'get_current:{b["e"]["k"]}')
        chk(f'get_power({bid!r}) [branch {k + 1} {b["e"]["k"]}]', lambda bid=bid: sol.get_power(bid), p[k], s_p, f'get_power:{b["e"]["k"]}')
    for a, b2 in itertools.permutations(sorted(phi), 2):
        chk(f'open_circuit_voltage({naming.node(a)!r},{naming.node(b2)!r})', lambda a=a, b2=b2: open_circuit_voltage(net, naming.node(a), naming.node(b2)),
            phi[a] - phi[b2], s_v, 'open_circuit_voltage')
    return n_obs


def replay(case, ctx):
    h = stable_hash([case['br'], case['ref']])
    r = CaseResult(case_id=f'{h:x}')
    r.tags = sorted(tags_of(case))
    if 'schemes' in case:         # a replay file pins the variant
        variants = case['schemes']
    else:
        k = 4 if ctx.get('tier') == 'thorough' else 1
        variants = [(0, 0, (0, 0))] + [((h + 7 * j) % (N_SCHEMES - 1) + 1, (h >> 4 + j) % 3, UNITS[(h >> 7 + j) % len(UNITS)]) for j in range(k)]
    for scheme, mode, units in variants:
        r.observations += compare_solution(case, scheme, mode, tuple(units), r.mismatches)
    return r


# ------------------------------------------------------------------------------------------------------------------
# direction (B): planted solutions on larger networks (<= 8 nodes / 14 branches), judged by TLC (spec/trace/Trace_C01.tla)
def _g(z):
    from fractions import Fraction
    re, im = (z.real, z.imag) if isinstance(z, complex) else (z, 0)
    re, im = Fraction(re), Fraction(im)
    return [[re.numerator, re.denominator], [im.numerator, im.denominator]]


class FC:
    """exact complex number over Fractions"""
    def __init__(self, re=0, im=0):
        from fractions import Fraction
        self.re, self.im = Fraction(re), Fraction(im)

    def __add__(self, o): return FC(self.re + o.re, self.im + o.im)
    def __sub__(self, o): return FC(self.re - o.re, self.im - o.im)
    def __neg__(self): return FC(-self.re, -self.im)
    def __mul__(self, o): return FC(self.re * o.re - self.im * o.im, self.re * o.im + self.im * o.re)
    def inv(self):
        m = self.re * self.re + self.im * self.im
        return FC(self.re / m, -self.im / m)
    def __truediv__(self, o): return self * o.inv()
    def zero(self): return self.re == 0 and self.im == 0
    def j(self): return [[self.re.numerator, self.re.denominator], [self.im.numerator, self.im.denominator]]
    def c(self): return complex(float(self.re), float(self.im))


def plant(rng):
    """a random network with a known exact solution"""
    from fractions import Fraction as F
    n = rng.randint(4, 8)
    ref = rng.randrange(n)
    phi = [FC(rng.randint(-4, 4), rng.choice([0, 0, 1, -2])) for _ in range(n)]
    phi[ref] = FC(0)
    nodes = list(range(n))
    rng.shuffle(nodes)
    pairs = [(nodes[i], rng.choice(nodes[:i])) for i in range(1, n)]
    extra = rng.randint(0, 14 - (n - 1) - (n - 1))
    for _ in range(max(extra, 0)):
        pairs.append(tuple(rng.sample(range(n), 2)))
    br, flow = [], []
    z0 = [[0, 1], [0, 1]]
    # union-find over ideal-voltage branches to keep them a forest
    parent = list(range(n))

    def find(x):
        while parent[x] != x:
            parent[x] = parent[parent[x]]
            x = parent[x]
        return x
    for k, (a, b) in enumerate(pairs):
        if rng.random() < 0.5:
            a, b = b, a
        u = phi[a] - phi[b]
        kind = rng.choices(['R', 'Z', 'Y', 'VL', 'IL', 'V', 'S', 'O'], weights=[5, 2, 2, 2, 2, 3, 1, 1])[0]
        if kind in ('V', 'S'):
            if find(a) == find(b) or (kind == 'S' and not u.zero()):
                kind = 'R'
            else:
                parent[find(a)] = find(b)
        if kind == 'R':
            zz = FC(rng.choice([1, 2, 3, 4, 5, 6]))
            e = {'f': 'N', 'imm': zz.j(), 'src': z0, 'k': 'resistor', 'a': [zz.j()]}
            fl = u / zz
        elif kind == 'Z':
            zz = FC(rng.choice([1, 2, 3]), rng.choice([-2, -1, 1, 2]))
            e = {'f': 'N', 'imm': zz.j(), 'src': z0, 'k': 'impedance', 'a': [zz.j()]}
            fl = u / zz
        elif kind == 'Y':
            yy = FC(F(1, rng.choice([1, 2, 4])), F(rng.choice([-1, 1]), rng.choice([2, 4])))
            e = {'f': 'T', 'imm': yy.j(), 'src': z0, 'k': 'admittance', 'a': [yy.j()]}
            fl = yy * u
        elif kind == 'VL':
            zz, vv = FC(rng.choice([1, 2, 4])), FC(rng.randint(1, 4), rng.choice([0, 1]))
            e = {'f': 'N', 'imm': zz.j(), 'src': vv.j(), 'k': 'voltage_source', 'a': [vv.j(), zz.j()]}
            fl = (u + vv) / zz
        elif kind == 'IL':
            yy, ii = FC(F(1, rng.choice([1, 2, 4]))), FC(rng.randint(1, 3), rng.choice([0, -1]))
            e = {'f': 'T', 'imm': yy.j(), 'src': ii.j(), 'k': 'current_source', 'a': [ii.j(), yy.j()]}
            fl = ii + yy * u
        elif kind == 'V':
            if u.zero():
                e = {'f': 'N', 'imm': z0, 'src': z0, 'k': 'short_circuit', 'a': []}
            else:
                e = {'f': 'N', 'imm': z0, 'src': u.j(), 'k': 'voltage_source', 'a': [u.j(), z0]}
            fl = FC(rng.randint(-3, 3), rng.choice([0, 0, 1]))          # its current is free: chosen, balanced below
        elif kind == 'S':
            e = {'f': 'N', 'imm': z0, 'src': z0, 'k': 'short_circuit', 'a': []}
            fl = FC(rng.randint(-2, 2))
        else:
            e = {'f': 'T', 'imm': z0, 'src': z0, 'k': 'open_circuit', 'a': []}
            fl = FC(0)
        br.append({'id': k + 1, 'n1': a, 'n2': b, 'e': e})
        flow.append(fl)
    # balance every node with an ideal current source from the reference
    for nn in range(n):
        if nn == ref:
            continue
        d = FC(0)
        for b, fl in zip(br, flow):
            if b['n1'] == nn:
                d = d + fl
            if b['n2'] == nn:
                d = d - fl
        if not d.zero():
            # current d must be brought INTO nn: source from ref to nn carrying d
            br.append({'id': len(br) + 1, 'n1': ref, 'n2': nn, 'e': {'f': 'T', 'imm': z0, 'src': d.j(), 'k': 'current_source', 'a': [d.j(), z0]}})
            flow.append(d)
    return br, ref, phi, flow


def exact_solve(br, ref):
    """exact MNA solution over Gaussian rationals (untrusted: TLC judges the result with the declarative circuit equations)"""
    nodes = sorted({b['n1'] for b in br} | {b['n2'] for b in br})
    nz = [n for n in nodes if n != ref]
    vs = [k for k, b in enumerate(br) if b['e']['f'] == 'N' and b['e']['imm'] == [[0, 1], [0, 1]]]
    N = len(nz) + len(vs)
    A = [[FC(0) for _ in range(N + 1)] for _ in range(N)]
    def G(x): return FC(*[__import__('fractions').Fraction(*p) for p in x])
    for k, b in enumerate(br):
        e = b['e']
        imm, src = G(e['imm']), G(e['src'])
        i1 = nz.index(b['n1']) if b['n1'] != ref else None
        i2 = nz.index(b['n2']) if b['n2'] != ref else None
        if k in vs:
            c = len(nz) + vs.index(k)
            if i1 is not None:
                A[i1][c] = A[i1][c] + FC(1); A[c][i1] = A[c][i1] + FC(1)
            if i2 is not None:
                A[i2][c] = A[i2][c] - FC(1); A[c][i2] = A[c][i2] - FC(1)
            A[c][N] = A[c][N] + src
            continue
        y = imm.inv() if e['f'] == 'N' else imm
        isrc = (src / imm) if e['f'] == 'N' else src
        if y.zero() and isrc.zero():
            continue
        for a, bb, sg in ((i1, i2, 1), (i2, i1, -1)):
            if a is None:
                continue
            A[a][a] = A[a][a] + y
            if bb is not None:
                A[a][bb] = A[a][bb] - y
            A[a][N] = A[a][N] - (isrc if sg == 1 else -isrc)
    for c in range(N):
        piv = next((r_ for r_ in range(c, N) if not A[r_][c].zero()), None)
        if piv is None:
            return None
        A[c], A[piv] = A[piv], A[c]
        inv = A[c][c].inv()
        A[c] = [x * inv for x in A[c]]
        for r_ in range(N):
            if r_ != c and not A[r_][c].zero():
                f = A[r_][c]
                A[r_] = [x - f * y_ for x, y_ in zip(A[r_], A[c])]
    x = [A[r_][N] for r_ in range(N)]
    phi = {n: (FC(0) if n == ref else x[nz.index(n)]) for n in nodes}
    flow = []
    for k, b in enumerate(br):
        e = b['e']
        u = phi[b['n1']] - phi[b['n2']]
        if k in vs:
            flow.append(x[len(nz) + vs.index(k)])
        elif e['f'] == 'N':
            flow.append((u + G(e['src'])) / G(e['imm']))
        else:
            flow.append(G(e['src']) + G(e['imm']) * u)
    return phi, flow


def shipped_examples():
    """the example networks shipped with the repository, loaded by the real loader and projected to abstract networks"""
    import glob, os
    from fractions import Fraction
    from ..common import REPO
    from ..netbuild import project_network
    from CircuitCalculator.Network.loaders import load_network_from_json
    out = []
    for path in sorted(glob.glob(os.path.join(REPO, 'examples', 'test-networks', '01_json-network', '*.json'))):
        try:
            net = load_network_from_json(path)
        except Exception as e:       # noqa
            out.append((path, None, repr(e)))
            continue
        pn = project_network(net)
        labels = sorted({b['n1'] for b in pn['br']} | {b['n2'] for b in pn['br']})
        idx = {l: k for k, l in enumerate(labels)}
        def fg(z):
            z = complex(z)
            re, im = Fraction(z.real).limit_denominator(10 ** 6), Fraction(z.imag).limit_denominator(10 ** 6)
            return [[re.numerator, re.denominator], [im.numerator, im.denominator]]
        br = [{'id': k + 1, 'n1': idx[b['n1']], 'n2': idx[b['n2']], 'e': {'f': b['f'], 'imm': fg(b['imm']), 'src': fg(b['src'])}} for k, b in enumerate(pn['br'])]
        out.append((path, (net, br, idx[pn['ref']], labels, [b['id'] for b in pn['br']]), None))
    return out


def recorded_test_solves(tier):
    import json, subprocess, sys, tempfile, shutil, math
    from fractions import Fraction
    from ..common import REPO, REPO_SRC, VERIF, MachineryError
    from ..trace import judge
    tmp = tempfile.mkdtemp(prefix='verif_c01_tests_')
    try:
        out = os.path.join(tmp, 'solves.jsonl')
        env = dict(os.environ, PYTHONPATH=f'{REPO_SRC}{os.pathsep}{VERIF}', VERIF_TRACE_OUT=out, HYPOTHESIS_STORAGE_DIRECTORY=os.path.join(tmp, 'hyp'), MPLBACKEND='Agg')
        targets = ['tests/test_integration.py', 'tests/Circuit/solution'] if tier == 'quick' else ['tests']
        p = subprocess.run([sys.executable, '-m', 'pytest', '-q', '-p', 'no:cacheprovider', '-p', 'harness.pytest_tracer'] + targets, cwd=REPO, env=env,
                           capture_output=True, text=True, timeout=1200)
        if not os.path.exists(out):
            raise MachineryError('the repository tests were run under the tracer but no solve was recorded:\n' + (p.stdout + p.stderr)[-1500:])
        recs = [json.loads(l) for l in open(out)]
    finally:
        shutil.rmtree(tmp, ignore_errors=True)

    def fg(z):
        re, im = Fraction(z[0]).limit_denominator(10 ** 6), Fraction(z[1]).limit_denominator(10 ** 6)
        if abs(float(re) - z[0]) > 1e-15 * abs(z[0]) or abs(float(im) - z[1]) > 1e-15 * abs(z[1]):
            return None
        return [[re.numerator, re.denominator], [im.numerator, im.denominator]]
    events, meta, seen = [], [], set()
    for rec in recs:
        key = json.dumps([rec['ref'], rec['br']], sort_keys=True)
        if key in seen:
            continue
        seen.add(key)
        r = CaseResult(case_id='test_solve:' + rec['test'][:80])
        r.tags = ['repository_test_solve']
        flat = [x for b in rec['br'] for x in b['imm'] + b['src']]
        if not all(math.isfinite(x) for x in flat):
            r.skipped = 'recorded_network_with_non_finite_value'
            yield (json.dumps({'test_solve': rec['test']}), r)
            continue
        labels = sorted({b['n1'] for b in rec['br']} | {b['n2'] for b in rec['br']})
        idx = {l: k for k, l in enumerate(labels)}
        br = [{'id': k + 1, 'n1': idx[b['n1']], 'n2': idx[b['n2']], 'e': {'f': b['f'], 'imm': fg(b['imm']), 'src': fg(b['src'])}} for k, b in enumerate(rec['br'])]
        if any(b['e']['imm'] is None or b['e']['src'] is None for b in br) or rec['ref'] not in idx:
            r.skipped = 'recorded_network_not_exactly_rational'
            yield (json.dumps({'test_solve': rec['test']}), r)
            continue
        sol = exact_solve(br, idx[rec['ref']])
        if sol is None:
            r.skipped = 'recorded_network_singular'
            yield (json.dumps({'test_solve': rec['test']}), r)
            continue
        phi, flow = sol
        events.append({'tid': len(events) + 1, 'br': br, 'ref': idx[rec['ref']], 'phi': [phi[n].j() for n in range(len(labels))], 'flow': [f.j() for f in flow]})
        meta.append((rec, br, labels, phi, flow, r))
    if not events:
        return
    verdicts, _ = judge('Trace_C01.tla', events, shards=4, implicit_ok=True)
    for k, (rec, br, labels, phi, flow, r) in enumerate(meta):
        v = verdicts[k + 1]['v']
        if v == 'plant_not_well_posed' or v.startswith('skipped'):
            r.skipped = 'recorded_network_outside_topological_test' if v == 'plant_not_well_posed' else v
            yield (json.dumps({'test_solve': rec['test']}), r)
            continue
        if v != 'ok':
            raise MachineryError(f'exact solution of a recorded network rejected by the specification: {v}')
        sv = max([abs(p_.c()) for p_ in phi.values()] + [abs(complex(*b['src'])) for b in rec['br'] if b['f'] == 'N'] + [1e-9])
        si = max([abs(f.c()) for f in flow] + [abs(complex(*b['src'])) for b in rec['br'] if b['f'] != 'N'] + [1e-9])
        for n, lab in enumerate(labels):
            r.observations += 1
            got = complex(*rec['phi'][lab])
            if not close(got, phi[n].c(), sv):
                r.mismatches.append({'what': f'{rec["test"]}: get_potential({lab!r})', 'got': repr(got), 'want': repr(phi[n].c()), 'signature': 'test_solve:potential', 'detail': json.dumps(rec['br'])[:400]})
        for b, rb, f in zip(br, rec['br'], flow):
            lin = b['e']['src'] != [[0, 1], [0, 1]] and b['e']['imm'] != [[0, 1], [0, 1]]
            want = -f.c() if lin else f.c()
            r.observations += 2
            got = complex(*rec['i'][rb['id']])
            if not close(got, want, si):
                r.mismatches.append({'what': f'{rec["test"]}: get_current({rb["id"]!r})', 'got': repr(got), 'want': repr(want), 'signature': 'test_solve:current', 'detail': json.dumps(rec['br'])[:400]})
            gu, wu_ = complex(*rec['u'][rb['id']]), (phi[b['n1']] - phi[b['n2']]).c()
            if not close(gu, wu_, sv):
                r.mismatches.append({'what': f'{rec["test"]}: get_voltage({rb["id"]!r})', 'got': repr(gu), 'want': repr(wu_), 'signature': 'test_solve:voltage', 'detail': json.dumps(rec['br'])[:400]})
        yield (json.dumps({'test_solve': rec['test']}), r)


def extra(tier, seed, ctx, pool):
    import random, json
    from ..trace import judge
    # ---- the repository's shipped example networks: loaded by the real loader, exact solution judged by TLC, compared with the solver
    ex_events, ex_meta = [], []
    for path, item, err in shipped_examples():
        if item is None:
            r = CaseResult(case_id=path)
            r.mismatches.append({'what': f'load_network_from_json({path})', 'got': err, 'want': 'network', 'signature': 'example:load', 'detail': ''})
            yield (json.dumps({'example': path}), r)
            continue
        net, br, ref, labels, ids = item
        sol = exact_solve(br, ref)
        if sol is None:
            continue
        phi, flow = sol
        ex_events.append({'tid': len(ex_events) + 1, 'br': br, 'ref': ref, 'phi': [phi[n].j() for n in range(len(labels))], 'flow': [f.j() for f in flow]})
        ex_meta.append((path, net, br, ref, labels, ids, phi, flow))
    if ex_events:
        verdicts, _ = judge('Trace_C01.tla', ex_events, shards=4, implicit_ok=True)
        for k, (path, net, br, ref, labels, ids, phi, flow) in enumerate(ex_meta):
            v = verdicts[k + 1]['v']
            r = CaseResult(case_id=path)
            r.tags = ['shipped_example']
            if v == 'plant_not_well_posed' or v.startswith('skipped'):
                r.skipped = 'example_outside_topological_test' if v == 'plant_not_well_posed' else v
                yield (json.dumps({'example': path}), r)
                continue
            if v != 'ok':
                from ..common import MachineryError
                raise MachineryError(f'exact solution of {path} rejected by the specification: {v}')
            s_, e = call(nodal_analysis_bias_point_solver, net)
            if e is not None:
                r.mismatches.append({'what': f'solver on {path}', 'got': repr(e), 'want': 'solution', 'signature': 'example:solve', 'detail': ''})
            else:
                sv = max([abs(p_.c()) for p_ in phi.values()] + [1e-9])
                si = max([abs(f.c()) for f in flow] + [1e-9])
                for n, lab in enumerate(labels):
                    r.observations += 1
                    if not close(s_.get_potential(lab), phi[n].c(), sv):
                        r.mismatches.append({'what': f'{path}: get_potential({lab!r})', 'got': repr(s_.get_potential(lab)), 'want': repr(phi[n].c()), 'signature': 'example:potential', 'detail': ''})
                for b, f, bid in zip(br, flow, ids):
                    lin = b['e']['src'] != [[0, 1], [0, 1]] and b['e']['imm'] != [[0, 1], [0, 1]]
                    want = -f.c() if lin else f.c()
                    r.observations += 1
                    if not close(s_.get_current(bid), want, si):
                        r.mismatches.append({'what': f'{path}: get_current({bid!r})', 'got': repr(s_.get_current(bid)), 'want': repr(want), 'signature': 'example:current', 'detail': ''})
            yield (json.dumps({'example': path}), r)
    # ---- the steady-state solves of the repository's OWN tests (recorded by harness/pytest_tracer.py from outside): the exact solution of
    # every recorded network is judged by TLC, the answers the tests were given are compared with it
    for item in recorded_test_solves(tier):
        yield item
    rng = random.Random(seed * 101 + 1)
    n_nets = 160 if tier == 'quick' else 4000
    plants, events = [], []
    for t in range(n_nets):
        br, ref, phi, flow = plant(rng)
        if len(br) > 16:
            continue
        plants.append((br, ref, phi, flow))
        events.append({'tid': len(plants), 'br': [{'id': b['id'], 'n1': b['n1'], 'n2': b['n2'], 'e': {'f': b['e']['f'], 'imm': b['e']['imm'], 'src': b['e']['src']}} for b in br],
                       'ref': ref, 'phi': [p.j() for p in phi], 'flow': [f.j() for f in flow]})
    verdicts, info = judge('Trace_C01.tla', events, shards=16, implicit_ok=True)
    counts = {}
    for k, (br, ref, phi, flow) in enumerate(plants):
        v = verdicts[k + 1]['v']
        counts[v] = counts.get(v, 0) + 1
        r = CaseResult(case_id=f'plant{k}')
        r.tags = ['planted', f'nodes:{len(phi)}', 'branches>=10' if len(br) >= 10 else 'branches<10']
        if v == 'plant_not_well_posed' or v.startswith('skipped'):
            r.skipped = v           # e.g. the balancing made a node hang on current sources only: not in the domain
            yield (json.dumps({'plant': k}), r)
            continue
        if v != 'ok':
            from ..common import MachineryError
            raise MachineryError(f'the planted oracle is wrong ({v}) for {json.dumps(events[k])[:500]}')
        # expected observation in the format of the exhaustive scenarios
        u = [phi[b['n1']] - phi[b['n2']] for b in br]
        irep = [(-f if (b['e']['src'] != [[0, 1], [0, 1]] and b['e']['imm'] != [[0, 1], [0, 1]]) else f) for b, f in zip(br, flow)]
        case = {'br': br, 'ref': ref, 'expect': {'phi': {str(n): phi[n].j() for n in range(len(phi)) if any(n in (b['n1'], b['n2']) for b in br)},
                                                 'u': [x.j() for x in u], 'i': [x.j() for x in irep],
                                                 'p': [_g(a.c() * b.c().conjugate()) if False else FCmulconj(a, b).j() for a, b in zip(u, irep)]}}
        scheme = rng.randrange(N_SCHEMES)
        r.observations += compare_solution(case, scheme, rng.randrange(3), UNITS[rng.randrange(len(UNITS))], r.mismatches)
        for m in r.mismatches:
            m['signature'] = 'planted:' + m['signature']
        yield (json.dumps(case), r)
    yield {'trace_validation': dict(info, verdicts=counts, module='Trace_C01.tla')}


def FCmulconj(a, b):
    return a * FC(b.re, -b.im)
