"""C01 - the steady-state solution obeys Kirchhoff's laws and every element law."""
from __future__ import annotations
import itertools
from ..common import (CaseResult, Naming, N_SCHEMES, stable_hash, gauss, close, call, exc_sig, ensure_repo_import)
from ..netbuild import build_network, UNITS, role_of, scales

ensure_repo_import()
from CircuitCalculator.Network.NodalAnalysis.bias_point_analysis import nodal_analysis_bias_point_solver, open_circuit_voltage  # noqa: E402

PROP = 'C01'
RULE = ('scenarios = reachable states of MC_C01 (all connected networks over <= MaxN nodes and <= MaxB branches, every element kind, '
        'both terminal orders, parallel branches, every reference node); distinct by TLC fingerprint; non-trivial = well posed '
        '(MNA determinant non-zero, decided exactly in the specification) and compared at every node and branch')


def models(tier, seed):
    if tier == 'quick':
        return [dict(module='MC_C01.tla', cfg='MC_C01_quick.cfg')]
    return [dict(module='MC_C01.tla', cfg='MC_C01_thorough.cfg'),
            dict(module='MC_C01.tla', cfg='MC_C01_sim.cfg', simulate=f'num=100000000', depth=8, seed=seed, max_cases=150000, workers=8)]


def required_tags(tier):
    return ['parallel', 'ref_only_vsrc', 'linear_src', 'reversed', 'complex', 'k:load_v', 'k:voltage_source', 'k:current_source', 'k:short_circuit', 'k:open_circuit']


def tags_of(case):
    br, ref = case['br'], case['ref']
    t = set()
    pairs = [frozenset((b['n1'], b['n2'])) for b in br]
    if len(set(pairs)) < len(pairs):
        t.add('parallel')
    at_ref = [b for b in br if ref in (b['n1'], b['n2'])]
    if at_ref and all(role_of(b['e']) == 'V' for b in at_ref):
        t.add('ref_only_vsrc')
    for b in br:
        e = b['e']
        t.add('k:' + e['k'])
        if e['src'] != [[0, 1], [0, 1]] and e['imm'] != [[0, 1], [0, 1]]:
            t.add('linear_src')
        if b['n1'] > b['n2']:
            t.add('reversed')
        if e['imm'][1][0] != 0 or e['src'][1][0] != 0:
            t.add('complex')
    return t


def compare_solution(case, scheme, mode, units, mism, order=None):
    """build, solve, compare every observation; returns number of observations"""
    br, ref, ex = case['br'], case['ref'], case['expect']
    naming = Naming(scheme)
    zu, vu = 10.0 ** units[0], 10.0 ** units[1]
    ctxs = f'scheme={scheme} mode={mode} units={units}'
    tg = tags_of(case)
    suffix = ':ref_only_vsrc' if 'ref_only_vsrc' in tg else ''
    built, e = call(build_network, br, ref, naming, mode, units, order)
    if e is not None:
        mism.append({'what': 'Network(...)', 'got': repr(e), 'want': 'valid network accepted', 'signature': f'exc:construct:{exc_sig(e)}', 'detail': ctxs})
        return 1
    net, ids = built
    sol, e = call(nodal_analysis_bias_point_solver, net)
    if e is not None:
        mism.append({'what': 'nodal_analysis_bias_point_solver', 'got': repr(e), 'want': 'solution of a well-posed network',
                     'signature': f'exc:solve:{exc_sig(e)}{suffix}', 'detail': ctxs})
        return 1
    phi = {int(n): gauss(v) * vu for n, v in ex['phi'].items()}
    u = [gauss(v) * vu for v in ex['u']]
    i = [gauss(v) * vu / zu for v in ex['i']]
    p = [gauss(v) * vu * vu / zu for v in ex['p']]
    s_v, s_i, s_p = scales(br, [phi.values(), u], [i], zu, vu)
    n_obs = 0

    def chk(what, fn, want, scale, sigk):
        nonlocal n_obs
        n_obs += 1
        got, e = call(fn)
        if e is not None:
            mism.append({'what': what, 'got': repr(e), 'want': repr(want), 'signature': f'exc:{sigk}:{exc_sig(e)}{suffix}', 'detail': ctxs})
        elif not close(got, want, scale):
            mism.append({'what': what, 'got': repr(complex(got)), 'want': repr(want), 'signature': f'value:{sigk}{suffix}', 'detail': ctxs})

    for n, want in phi.items():
        chk(f'get_potential({naming.node(n)!r}) [node {n}]', lambda n=n: sol.get_potential(naming.node(n)), want, s_v, 'get_potential')
    for k, b in enumerate(br):
        bid = ids[b['id']]
        role = role_of(b['e'])
        chk(f'get_voltage({bid!r}) [branch {k + 1} {b["e"]["k"]}]', lambda bid=bid: sol.get_voltage(bid), u[k], s_v, 'get_voltage')
        chk(f'get_current({bid!r}) [branch {k + 1} {b["e"]["k"]}]', lambda bid=bid: sol.get_current(bid), i[k], s_i, f'get_current:{b["e"]["k"]}')
        chk(f'get_power({bid!r}) [branch {k + 1} {b["e"]["k"]}]', lambda bid=bid: sol.get_power(bid), p[k], s_p, f'get_power:{b["e"]["k"]}')
    for a, b2 in itertools.permutations(sorted(phi), 2):
        chk(f'open_circuit_voltage({naming.node(a)!r},{naming.node(b2)!r})', lambda a=a, b2=b2: open_circuit_voltage(net, naming.node(a), naming.node(b2)),
            phi[a] - phi[b2], s_v, 'open_circuit_voltage')
    return n_obs


def replay(case, ctx):
    h = stable_hash([case['br'], case['ref']])
    r = CaseResult(case_id=f'{h:x}')
    r.tags = sorted(tags_of(case))
    if 'schemes' in case:         # a replay file pins the variant
        variants = case['schemes']
    else:
        k = 4 if ctx.get('tier') == 'thorough' else 1
        variants = [(0, 0, (0, 0))] + [((h + 7 * j) % (N_SCHEMES - 1) + 1, (h >> 4 + j) % 3, UNITS[(h >> 7 + j) % len(UNITS)]) for j in range(k)]
    for scheme, mode, units in variants:
        r.observations += compare_solution(case, scheme, mode, tuple(units), r.mismatches)
    return r
