"""C15 - saving, reloading and declarative descriptions preserve the circuit."""
from __future__ import annotations
import math, random, json
import matplotlib
matplotlib.use('Agg')
from ..common import CaseResult, Naming, N_SCHEMES, stable_hash, gauss, rat, close, call, exc_sig, ensure_repo_import
from ..circbuild import f as fl, phase_of
from ..drawbuild import build_schematic, element_name, LABEL_NAMES, PITCH
from . import c13

ensure_repo_import()
from CircuitCalculator.SimpleCircuit import dump_load as sdl                     # noqa: E402
from CircuitCalculator.SimpleCircuit.DiagramTranslator import circuit_translator  # noqa: E402

PROP = 'C15'
RULE = ('(a) drawing programs of MC_C13 restricted to the persistable symbol set (TLC -simulate), saved and reloaded 1-3 times (JSON, and YAML once), the reloaded drawing '
        'translated and compared with the specification\'s netlist; (b) declarative element lists of MC_C15 (type, values, direction, length, place_after, reverse) turned '
        'into drawings by create_schematic and compared with the netlist of the program the specification assigns to the list, and with the programmatic construction')
ASSUME = ['small_scope', 'binary64', 'tlc', 'import', 'schemdraw']


def models(tier, seed):
    n1, n2 = (1500, 2500) if tier == 'quick' else (15000, 15000)
    return [dict(module='MC_C13.tla', cfg='MC_C15_save.cfg', simulate='num=100000000', depth=8, seed=seed, max_cases=n1, shards=12, batch=20),
            dict(module='MC_C15.tla', cfg='MC_C15_sim.cfg', simulate='num=100000000', depth=7, seed=seed + 1, max_cases=n2, shards=12, batch=20)]


def required_tags(tier):
    return ['save:json', 'cycles:3', 'save:reversed', 'save:deg', 'save:ground', 'save:k:ACV', 'save:k:RectV', 'save:k:CI', 'save:k:Z',
            'decl', 'decl:place_after', 'decl:reverse', 'decl:ground', 'decl:node', 'decl:left', 'decl:down', 'decl:len2', 'decl:k:lline', 'decl:k:lamp', 'decl:k:CV']


def schematic_mod():
    from CircuitCalculator.SimpleSimulation import schematic
    return schematic


def replay_save(case, ctx, r, tg):
    prog, netlist = case['prog'], case['netlist']
    h = stable_hash(prog)
    rng = random.Random(ctx.get('seed', 0) * 31 + h)
    scheme = h % N_SCHEMES
    naming = Naming(scheme)
    gnd_name = ['0', 'gnd'][h % 2]
    d, names, label_names = build_schematic(prog, netlist, naming, rot=h % 4, shift=(0.0, 1.5 * (h % 3)), scale=[1.0, 2.0][(h >> 2) % 2], gnd_name=gnd_name)
    for it in prog:
        tg.add('save:k:' + it['k'])
        if it['rev']:
            tg.add('save:reversed')
        if it['deg']:
            tg.add('save:deg')
        if it['k'] == 'gnd':
            tg.add('save:ground')
    ncycles = 1 + h % 3
    fmts = ['json'] * ncycles        # the property speaks of JSON; YAML of whole schematics is outside it (python tuples in the circuit section)
    cur = d
    for cyc, fmt in enumerate(fmts):
        tg.add('save:' + fmt)
        text, e = call(sdl.serialize, cur, fmt)
        if e is not None:
            r.mismatches.append({'what': f'serialize(schematic, {fmt!r}) cycle {cyc + 1}', 'got': repr(e), 'want': 'text', 'signature': f'exc:serialize:{exc_sig(e)}', 'detail': f'prog={prog}'})
            return
        nxt, e = call(sdl.deserialize, text, fmt)
        if e is not None:
            r.mismatches.append({'what': f'deserialize cycle {cyc + 1}', 'got': repr(e), 'want': 'schematic', 'signature': f'exc:deserialize:{exc_sig(e)}', 'detail': f'prog={prog}'})
            return
        cur = nxt
        if cyc + 1 == 3:
            tg.add('cycles:3')
        before = len(r.mismatches)
        c13.compare_schematic(case, cur, names, label_names, None, gnd_name, naming, f'scheme={scheme} after {cyc + 1} save/load cycle(s) [{fmt}]', r, set(), sigprefix=f'reload:')
        if len(r.mismatches) > before:
            for m in r.mismatches[before:]:
                kinds = sorted({it['k'] for it in prog if it['deg'] or it['k'].startswith('AC') or it['k'].startswith('Rect')})
                m['detail'] += f' prog={prog}'
            return


TYPE = {'R': 'resistor', 'G': 'conductance', 'Z': 'impedance', 'C': 'capacitor', 'L': 'inductance', 'lamp': 'lamp', 'lline': 'line', 'wire': 'line', 'V': 'voltage_source',
        'I': 'current_source', 'ACV': 'ac_voltage_source', 'ACI': 'ac_current_source', 'CV': 'complex_voltage_source', 'CI': 'complex_current_source', 'gnd': 'ground', 'label': 'node'}


def decl_elements(case, tg=None):
    """the declarative element list (dictionaries for create_schematic) of a scenario of MC_C15"""
    tg = set() if tg is None else tg
    ents, prog, netlist = case['ents'], case['prog'], case['netlist']
    h = stable_hash(ents)
    scheme = h % N_SCHEMES
    naming = Naming(scheme)
    comp_of = {c['id']: c for c in netlist}
    names, label_names = {}, {}
    gnd_name = 'G0'
    elements = []
    unit = [3, 7, 2.5][h % 3]
    tg.add('decl')
    for i, en in enumerate(ents):
        iid = i + 1
        k = en['k']
        d = {'type': TYPE[k]}
        if k == 'gnd':
            d['name'] = gnd_name
            tg.add('decl:ground')
        elif k == 'label':
            label_names[iid] = LABEL_NAMES[iid % len(LABEL_NAMES)] + str(iid)
            d['name'] = label_names[iid]
            tg.add('decl:node')
        elif k != 'wire':
            names[iid] = element_name(naming, iid, k)
            d['name'] = names[iid]
            tg.add('decl:k:' + k)
        if k in comp_of or iid in comp_of:
            v = comp_of[iid]['v']
            if k == 'R':
                d['R'] = fl(v['R'])
            elif k == 'G':
                d['G'] = fl(v['G'])
            elif k == 'Z':
                d['Z'] = complex(fl(v['R']), fl(v['X']))
            elif k == 'C':
                d['C'] = fl(v['C'])
            elif k == 'L':
                d['L'] = fl(v['L'])
            elif k == 'lamp':
                d['V_ref'], d['P_ref'] = fl(v['V_ref']), fl(v['P'])
            elif k == 'V':
                d['V'] = fl(v['V'])
            elif k == 'I':
                d['I'] = fl(v['I'])
            elif k == 'CV':
                d['V'] = gauss(v['V'])
            elif k == 'CI':
                d['I'] = gauss(v['I'])
            elif k == 'ACV':
                d.update({'V': fl(v['V']), 'w': fl(v['w']), 'phi': phase_of(v['u'])})
            elif k == 'ACI':
                d.update({'I': fl(v['I']), 'w': fl(v['w']), 'phi': phase_of(v['u'])})
        if k not in ('gnd', 'label'):
            d['direction'] = en['dir']
            d['length'] = en['len']
            tg.add('decl:' + en['dir'])
            if en['len'] == 2:
                tg.add('decl:len2')
        if en['rev']:
            d['reverse'] = True
            tg.add('decl:reverse')
        if en['after']:
            d['place_after'] = names[en['after']]
            tg.add('decl:place_after')
        elements.append(d)
    return elements, names, label_names, gnd_name, naming, scheme, unit


def replay_decl(case, ctx, r, tg):
    ents, prog, netlist = case['ents'], case['prog'], case['netlist']
    elements, names, label_names, gnd_name, naming, scheme, unit = decl_elements(case, tg)
    import matplotlib.pyplot as plt
    snap = repr(elements)
    try:
        sch, e = call(lambda: schematic_mod().create_schematic({'unit': unit, 'elements': elements}))
    finally:
        plt.close('all')
    ctxs = f'scheme={scheme} unit={unit} elements={elements}'
    if e is not None:
        r.mismatches.append({'what': 'create_schematic', 'got': repr(e), 'want': 'schematic', 'signature': f'exc:create_schematic:{exc_sig(e)}', 'detail': ctxs})
        return
    r.observations += 1
    if repr(elements) != snap:
        r.mismatches.append({'what': 'create_schematic: the element list after the call', 'got': repr(elements), 'want': snap, 'signature': 'mutated:create_schematic', 'detail': ''})
    before = len(r.mismatches)
    c13.compare_schematic(case, sch, names, label_names, None, gnd_name, naming, ctxs, r, set(), sigprefix='declarative:')
    for m in r.mismatches[before:]:
        if m['signature'] == 'declarative:label' and all(not en['after'] for en in ents if en['k'] == 'label'):
            m['signature'] = 'declarative:label:node_at_cursor'
    # the equivalent programmatic construction gives the same circuit
    d2, names2, labels2 = build_schematic(prog, netlist, naming, gnd_name=gnd_name, scale=unit / PITCH)
    c1, e1 = call(circuit_translator, sch)
    c2, e2 = call(circuit_translator, d2)
    if e1 is None and e2 is None:
        r.observations += 1
        a = sorted([(c.type, c.id, dict(c.value)) for c in c1.components if c.type != 'ground'], key=lambda x: x[1])
        b = sorted([(c.type, c.id, dict(c.value)) for c in c2.components if c.type != 'ground'], key=lambda x: x[1])
        if len(a) != len(b) or any(x[0] != y[0] or x[1] != y[1] or not c13.same_value(x[2], y[2]) for x, y in zip(a, b)):
            r.mismatches.append({'what': 'declarative vs programmatic construction', 'got': repr(a), 'want': repr(b), 'signature': 'declarative:differs_from_programmatic', 'detail': ctxs})


def replay(case, ctx):
    r = CaseResult(case_id=f'{stable_hash(case["prog"]):x}')
    tg = set()
    if 'ents' in case:
        replay_decl(case, ctx, r, tg)
    else:
        replay_save(case, ctx, r, tg)
    import matplotlib.pyplot as plt
    plt.close('all')
    r.tags = sorted(tg)
    return r
