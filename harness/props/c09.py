"""C09 - the multi-frequency steady state is the superposition of the single-frequency solutions."""
from __future__ import annotations
import math, cmath, random
import numpy as np
from ..common import CaseResult, Naming, N_SCHEMES, stable_hash, gauss, rat, close, call, exc_sig, ensure_repo_import
from ..circbuild import build_circuit
from .c16 import items
from . import c02

ensure_repo_import()
from CircuitCalculator.Circuit.circuit import frequency_components  # noqa: E402
from CircuitCalculator.Circuit.solution import TimeDomainSolution, FrequencyDomainSolution  # noqa: E402

PROP = 'C09'
RULE = ('scenarios = circuits of MC_C09 with DC, sinusoidal and periodic sources (incl. an AC source sitting on a harmonic of a periodic one, bit-for-bit and '
        'computed differently: 0.3 vs 3*0.1) x w_max (between, on, above harmonics); distinct by TLC fingerprint; non-trivial = every frequency well posed')


def models(tier, seed):
    if tier == 'quick':
        return [dict(module='MC_C09.tla', cfg='MC_C09_quick.cfg', batch=50), dict(module='MC_C09.tla', cfg='MC_C09_tenth.cfg', batch=50), dict(module='MC_C09.tla', cfg='MC_C09_near.cfg', batch=20)]
    return [dict(module='MC_C09.tla', cfg='MC_C09_thorough.cfg', batch=50), dict(module='MC_C09.tla', cfg='MC_C09_tenth.cfg', batch=50), dict(module='MC_C09.tla', cfg='MC_C09_near.cfg', batch=20)]


def required_tags(tier):
    return ['periodic', 'ac'] + (['dc'] if tier == 'thorough' else []) + ['coincide_exact', 'coincide_computed', 'wmax=0', 'wmax_on_harmonic', 'wmax_between', 'one_sided', 'two_sided', 'freqs>=4', 'pi1', 'pi2', 'near_harmonic', 'deferred_evaluation']


def line_value(parts, field, key, unit):
    """sum over pi-monomials of one observed quantity"""
    tot = 0j
    for _, p in items(parts):
        x = p['x'][field]
        v = x[key] if not isinstance(x, dict) else x[str(key)]
        tot += gauss(v) * math.pi ** (-p['k'])
    return tot * unit


def replay(case, ctx):
    comps = case['comps']
    h = stable_hash([comps, case['wmax']])
    r = CaseResult(case_id=f'{h:x}')
    tg = set()
    kinds = [c['kind'] for c in comps]
    if any(k.startswith('periodic') for k in kinds):
        tg.add('periodic')
    if any(k.startswith('ac_') for k in kinds):
        tg.add('ac')
    if any(k.startswith('dc_') for k in kinds):
        tg.add('dc')
    wmax = rat(case['wmax'])
    freqs = [rat(x) for x in case['freqs']]
    if len(freqs) >= 4:
        tg.add('freqs>=4')
    per = [rat(c['v']['w']) for c in comps if c['kind'].startswith('periodic')]
    acs = [rat(c['v']['w']) for c in comps if c['kind'].startswith('ac_')]
    for a in acs:
        for w0 in per:
            if a <= wmax and (a / w0).denominator == 1:
                tg.add('coincide_computed' if w0.denominator == 10 else 'coincide_exact')
    if any(a.denominator >= 1000 for a in acs):
        tg.add('near_harmonic')
    if wmax == 0:
        tg.add('wmax=0')
    elif per and any((wmax / w0).denominator == 1 for w0 in per):
        tg.add('wmax_on_harmonic')
    elif per:
        tg.add('wmax_between')
    for _, ln in items(case['lines']):
        for _, p in items(ln['parts']):
            if p['k'] == 1:
                tg.add('pi1')
            if p['k'] == 2:
                tg.add('pi2')
    variants = case.get('schemes') or ([(0, 0, (0, 0, 0))] if h % 3 == 0 else [((h % (N_SCHEMES - 1)) + 1, (h >> 5) % 3 - 1, c02.UNITS3[(h >> 8) % len(c02.UNITS3)])])
    mism = r.mismatches
    rng = random.Random(ctx.get('seed', 0) * 7919 + h)
    for scheme, turns, units in variants:
        units = tuple(units)
        naming = Naming(scheme)
        zu, vu, wu = (10.0 ** x for x in units)
        ctxs = f'scheme={scheme} turns={turns} units={units} wmax={float(wmax)}'
        built, e = call(build_circuit, comps, naming, turns, units)
        if e is not None:
            mism.append({'what': 'Circuit(...)', 'got': repr(e), 'want': 'accepted', 'signature': f'exc:construct:{exc_sig(e)}', 'detail': ctxs})
            continue
        circuit, ids = built
        # w_max slightly above the exact value when it sits on a harmonic that is not binary-exact is avoided by construction (the configurations use binary-exact values there)
        wm = float(wmax) * wu
        fc, e = call(frequency_components, circuit, wm)
        r.observations += 1
        want_f = [float(x) * wu for x in freqs]
        # the list of distinct frequencies, compared as a set (in ascending order on both sides)
        okf = e is None and len(fc) == len(want_f) and all(close(a, b, max(want_f + [1.0]), rtol=1e-9) for a, b in zip(sorted(float(x) for x in fc), sorted(want_f)))
        if not okf:
            sig = 'frequency_components'
            if e is None and len(fc) > len(want_f) and len({round(float(x), 9) for x in fc}) == len(want_f):
                sig = 'frequency_components:near_duplicates'
            mism.append({'what': f'frequency_components(w_max={wm})', 'got': repr(e or [float(x) for x in fc]), 'want': repr(want_f), 'signature': sig, 'detail': ctxs})
        ng = [c for c in comps if c['kind'] != 'ground']
        lines = [ln for _, ln in items(case['lines'])]
        nodes = sorted({c['n1'] for c in ng} | {c['n2'] for c in ng})
        # scales
        s_v = s_i = 0.0
        for ln in lines:
            for n in nodes:
                s_v += abs(line_value(ln['parts'], 'phi', n, vu))
            for k in range(len(ng)):
                s_i = max(s_i, sum(abs(line_value(l2['parts'], 'i', k, vu / zu)) for l2 in lines))
                s_v = max(s_v, sum(abs(line_value(l2['parts'], 'u', k, vu)) for l2 in lines))
        for c in ng:
            v = c['v']
            if 'V' in v and not isinstance(v['V'][0], list):
                s_v = max(s_v, abs(float(rat(v['V']))) * vu * 2)
            if 'I' in v and not isinstance(v['I'][0], list):
                s_i = max(s_i, abs(float(rat(v['I']))) * vu / zu * 2)
        zs = [z for wq in freqs for z in c02.impedances(comps, zu, float(wq))]
        if zs:
            s_v = max(s_v, s_i * max(zs))
            s_i = max(s_i, s_v / min(zs))
        # ---- spectral lines
        for one_sided in (True, False):
            tg.add('one_sided' if one_sided else 'two_sided')
            fd, e = call(FrequencyDomainSolution, circuit, w_max=wm, one_sided=one_sided)
            what = f'FrequencyDomainSolution(one_sided={one_sided})'
            if e is not None:
                mism.append({'what': what, 'got': repr(e), 'want': 'solution', 'signature': f'exc:frequency_domain:{"one" if one_sided else "two"}_sided:{exc_sig(e)}', 'detail': ctxs})
                continue
            if not okf:
                continue
            if one_sided:
                exp_w = want_f
                fac = [1.0] * len(lines)
                src = list(range(len(lines)))
                conj = [False] * len(lines)
            else:
                pos = [j for j, w in enumerate(want_f) if w > 0]
                exp_w = [-want_f[j] for j in reversed(pos)] + want_f
                src = list(reversed(pos)) + list(range(len(lines)))
                conj = [True] * len(pos) + [False] * len(lines)
                fac = [0.5] * len(pos) + [1.0 if want_f[j] == 0 else 0.5 for j in range(len(lines))]
            for field, getter, keys, unit, sc in (('phi', fd.get_potential, [(n, naming.node(n)) for n in nodes], vu, s_v),
                                                   ('u', fd.get_voltage, [(k, ids[c['id']]) for k, c in enumerate(ng)], vu, s_v),
                                                   ('i', fd.get_current, [(k, ids[c['id']]) for k, c in enumerate(ng)], vu / zu, s_i)):
                for key, name in keys:
                    res, e = call(getter, name)
                    r.observations += 1
                    if e is not None:
                        mism.append({'what': f'{what}.{getter.__name__}({name!r})', 'got': repr(e), 'want': 'series', 'signature': f'exc:frequency_domain:{getter.__name__}:{exc_sig(e)}', 'detail': ctxs})
                        continue
                    ws, xs = res
                    want = []
                    for j, f_, cj in zip(src, fac, conj):
                        v = line_value(lines[j]['parts'], field, key, unit) * f_
                        want.append(v.conjugate() if cj else v)
                    # spectral lines matched by frequency (the order in which they are listed is not part of the property)
                    got_lines = sorted(zip([float(x) for x in ws], [complex(x) for x in xs]), key=lambda t_: t_[0])
                    want_lines = sorted(zip(exp_w, want), key=lambda t_: t_[0])
                    ok = len(got_lines) == len(want_lines) and all(close(a[0], b[0], max(want_f + [1.0])) and close(a[1], b[1], sc) for a, b in zip(got_lines, want_lines))
                    if not ok:
                        mism.append({'what': f'{what}.{getter.__name__}({name!r})', 'got': repr((list(map(float, ws)), list(map(complex, xs)))), 'want': repr((exp_w, want)),
                                     'signature': f'value:frequency_domain:{"one" if one_sided else "two"}_sided', 'detail': ctxs})
        # ---- time functions
        td, e = call(TimeDomainSolution, circuit, w_max=wm)
        if e is not None:
            mism.append({'what': 'TimeDomainSolution', 'got': repr(e), 'want': 'solution', 'signature': f'exc:time_domain:{exc_sig(e)}', 'detail': ctxs})
            continue
        if not okf:
            continue
        tscale = 1.0 / wu
        ts = np.array([0.0, 0.25 * math.pi, 1.0, -2.3, rng.uniform(-10, 10), rng.uniform(0, 100)]) * tscale
        kcl = {n: np.zeros(len(ts)) for n in nodes}
        groups = (('phi', td.get_potential, [(n, naming.node(n)) for n in nodes], vu, s_v),
                  ('u', td.get_voltage, [(k, ids[c['id']]) for k, c in enumerate(ng)], vu, s_v),
                  ('i', td.get_current, [(k, ids[c['id']]) for k, c in enumerate(ng)], vu / zu, s_i))
        # every time function is asked for FIRST and evaluated afterwards (collect the signals, then plot them): a returned function must
        # keep meaning the quantity it was asked for, whatever is asked of the solution object later
        asked = {}
        for field, getter, keys, unit, sc in groups:
            for key, name in keys:
                asked[(field, key)] = call(getter, name)
        tg.add('deferred_evaluation')
        for field, getter0, keys, unit, sc in groups:
            for key, name in keys:
                fobj, ferr = asked[(field, key)]

                def getter(_name, fobj=fobj, ferr=ferr):
                    if ferr is not None:
                        raise ferr
                    return fobj
                getter.__name__ = getter0.__name__
                want = np.zeros(len(ts))
                for ln, wf in zip(lines, want_f):
                    X = line_value(ln['parts'], field, key, unit)
                    want = want + (X * np.exp(1j * wf * ts)).real
                got, e = call(lambda: np.array(getter(name)(ts), dtype=float))
                r.observations += len(ts)
                if e is not None:
                    mism.append({'what': f'TimeDomainSolution.{getter.__name__}({name!r})', 'got': repr(e), 'want': 'values', 'signature': f'exc:time_domain:{getter.__name__}:{exc_sig(e)}', 'detail': ctxs})
                    continue
                for j in range(len(ts)):
                    if not close(got[j], want[j], sc, rtol=1e-8, atol_rel=1e-10):
                        mism.append({'what': f'TimeDomainSolution.{getter.__name__}({name!r})(t={ts[j]})', 'got': repr(got[j]), 'want': repr(want[j]), 'signature': f'value:time_domain:{getter.__name__}', 'detail': ctxs})
                        break
    r.tags = sorted(tg)
    return r
