"""Generic check driver.

direction (A)  spec -> code: TLC enumerates the bounded model, checks the model's own
               invariants, and prints one CASE line per scenario with the specification's
               expected observation; a pool of workers replays every scenario through the
               real library and compares.
direction (B)  code -> spec: a driver records observations of the real library as events,
               TLC (a trace specification reusing the same operators) judges every event.

A property module provides
    PROP          'C01'
    models(tier, seed) -> list[dict(module=, cfg=, simulate=, depth=, max_cases=, ...)]
    replay(case: dict, ctx: dict) -> CaseResult           (runs in a worker)
    required_tags(tier) -> list[str]                      (vacuity guard)
  optionally
    extra(tier, seed, ctx) -> list[CaseResult]            (direction B and other drivers)
"""
from __future__ import annotations
import os, sys, json, time, importlib, multiprocessing as mp, hashlib, traceback, collections
from .common import (VERIF, MachineryError, CaseResult, ensure_repo_import, write_evidence, write_replay,
                     open_signatures, ASSUMPTIONS)
from .tlc import TLCRun

_PROPMOD = None
_CTX = None


def _init_worker(modname: str, ctx: dict):
    global _PROPMOD, _CTX
    os.environ['OPENBLAS_NUM_THREADS'] = '1'
    os.environ['OMP_NUM_THREADS'] = '1'
    _PROPMOD = importlib.import_module(modname)
    _CTX = ctx


def _work(batch: list[str]):
    out = []
    for payload in batch:
        try:
            case = json.loads(payload) if isinstance(payload, str) else payload
            r = _PROPMOD.replay(case, _CTX)
            out.append((payload if r.mismatches else None, r))
        except MachineryError as e:
            out.append((payload, ('machinery', str(e))))
        except Exception as e:   # a bug in the harness itself
            out.append((payload, ('machinery', traceback.format_exc())))
    return out


class Collector:
    def __init__(self, prop: str):
        self.prop = prop
        self.evaluations = 0
        self.observations = 0
        self.nontrivial = 0
        self.tags = collections.Counter()
        self.skipped = collections.Counter()
        self.failed = []          # (case, CaseResult)
        self.samples = []
        self.machinery = []
        self.seen = set()
        self.events = []

    def add(self, payload, r, sample_payload=None):
        if isinstance(r, tuple):
            self.machinery.append(r[1])
            return
        self.evaluations += 1
        self.observations += r.observations
        if r.skipped:
            self.skipped[r.skipped] += 1
        elif r.nontrivial:
            self.nontrivial += 1
        for t in r.tags:
            self.tags[t] += 1
        if r.events:
            self.events.extend(r.events)
        if r.mismatches:
            self.failed.append((payload, r))


MAX_RESTARTS = 12
SIM_BUDGET_S = float(os.environ.get('VERIF_SIM_BUDGET_S', '1500'))


def run_check(modname: str, tier: str, seed: int, replay_path: str | None = None) -> int:
    t0 = time.time()
    os.environ.setdefault('PYTHONHASHSEED', '0')
    os.environ['OPENBLAS_NUM_THREADS'] = '1'
    os.environ['OMP_NUM_THREADS'] = '1'
    ensure_repo_import()
    pm = importlib.import_module(modname)
    prop = pm.PROP
    ctx = {'tier': tier, 'seed': seed}
    if hasattr(pm, 'context'):
        ctx.update(pm.context(tier, seed))
    col = Collector(prop)

    if replay_path:
        with open(replay_path) as f:
            doc = json.load(f)
        case = doc['case']
        ctx['seed'] = doc.get('seed', seed)
        ctx['tier'] = doc.get('tier', tier)
        _init_worker(modname, ctx)
        r = pm.replay(case, ctx)
        if r.events and hasattr(pm, 'post'):
            for item in pm.post(r.events, ctx['tier'], ctx['seed'], ctx):
                if not isinstance(item, dict):
                    r.mismatches.extend(item[1].mismatches)
        for m in r.mismatches:
            print('MISMATCH', json.dumps(m, default=str))
        if r.mismatches:
            print(f'VIOLATION property={prop} replay={replay_path}')
            return 1
        print(f'replay of {replay_path}: no mismatch')
        return 0

    states = 0
    distinct = 0
    tlc_runs = []
    nworkers = int(os.environ.get('VERIF_WORKERS', '16'))
    pool = mp.get_context('fork').Pool(nworkers, initializer=_init_worker, initargs=(modname, ctx))
    try:
        pending = collections.deque()
        first_payloads = []

        def drain(block_until: int):
            while len(pending) > block_until:
                res = pending.popleft().get()
                for payload, r in res:
                    col.add(payload, r)

        import threading, queue as _queue

        def consume(batch):
            fresh = []
            for payload in batch:
                h = hashlib.blake2b(payload.encode() if isinstance(payload, str) else repr(payload).encode(), digest_size=8).digest()
                if h in col.seen:
                    continue
                col.seen.add(h)
                if len(first_payloads) < 3:
                    first_payloads.append(payload)
                fresh.append(payload)
            if fresh:
                pending.append(pool.apply_async(_work, (fresh,)))
                drain(4 * nworkers)

        def finish(run, spec):
            nonlocal states, distinct
            run.require_ok()
            if run.cut and run.distinct == 0:      # a simulation that was cut after max_cases prints no totals: every emitted scenario is a state TLC checked
                run.states = run.distinct = run.emitted
            states += run.states
            distinct += run.distinct
            tlc_runs.append({'module': spec['module'], 'cfg': spec['cfg'], 'simulate': spec.get('simulate'), 'seed': spec.get('seed'), 'states_generated': run.states,
                             'distinct_states': run.distinct, 'cut_after_max_cases': run.cut, 'cmd': ' '.join(run.cmd[-8:])})

        for spec in pm.models(tier, seed):
            spec = dict(spec)
            batch_size = spec.pop('batch', 200)
            tags = spec.pop('tags', ('CASE',))
            shards = spec.pop('shards', 1)
            if shards <= 1:
                run = TLCRun(**spec)
                batch = []
                for tag, payload in run.lines(tags=tags):
                    batch.append(payload)
                    if len(batch) >= batch_size:
                        consume(batch)
                        batch = []
                if batch:
                    consume(batch)
                finish(run, spec)
                continue
            # a randomised simulation: several single-worker TLC processes with different seeds (TLC's RandomElement is seeded per process)
            q = _queue.Queue(maxsize=256)
            per = (spec.get('max_cases') or 0) // shards + 1
            runs = []
            runs_lock = threading.Lock()

            def is_overflow(run):
                return (not run.ok and run.errors and any('verflow' in e for e in run.errors)
                        and not any('Assert' in e or 'violated' in e for e in run.errors))

            t_shards = time.time()

            def reader(k):
                # exact 32-bit arithmetic: an overflow ends a simulation process (it is never silent); the scenarios it emitted before are
                # valid, and the shard goes on with a fresh seed until its share of the budget is used (at most MAX_RESTARTS times)
                try:
                    got = 0
                    for attempt in range(MAX_RESTARTS + 1):
                        sp = dict(spec, workers=1, seed=(spec.get('seed') or 0) + 7919 * k + 104729 * attempt, max_cases=per - got, heap='1g')
                        sp.setdefault('timeout', SIM_BUDGET_S)        # a random walk is a budget, not a goal: it ends after this many seconds at the latest
                        sp['timeout'] = max(30.0, sp['timeout'] - (time.time() - t_shards))
                        run = TLCRun(**sp)
                        with runs_lock:
                            runs.append((run, sp))
                        b = []
                        for tag, payload in run.lines(tags=tags):
                            b.append(payload)
                            if len(b) >= batch_size:
                                q.put(b)
                                b = []
                        if b:
                            q.put(b)
                        got += run.emitted
                        if got >= per or run.timed_out or not (is_overflow(run) or getattr(run, 'stalled', False)):
                            break
                except Exception as ex:     # noqa
                    q.put(ex)
                finally:
                    q.put(None)
            for k in range(shards):
                threading.Thread(target=reader, args=(k,), daemon=True).start()
            live = shards
            while live:
                item = q.get()
                if item is None:
                    live -= 1
                elif isinstance(item, Exception):
                    raise item
                else:
                    consume(item)
            emitted_total = 0
            for run, sp in runs:
                emitted_total += run.emitted
                if getattr(run, 'stalled', False):
                    col.skipped['simulation_shard_stalled' + ('_worker_thread_died' if getattr(run, 'thread_died', None) else '')] += 1
                    run.ok = True
                if is_overflow(run):
                    col.skipped['simulation_process_stopped_out_of_arithmetic_range'] += 1
                    run.ok = True
                    run.cut = True
                finish(run, sp)
            timed_out = sum(1 for run, _ in runs if run.timed_out)
            if timed_out:
                col.skipped['simulation_shard_ended_by_time_budget'] += timed_out
            if spec.get('max_cases') and emitted_total < (1 if timed_out else spec['max_cases'] // 4):
                raise MachineryError(f'simulation {spec["module"]}/{spec["cfg"]} produced only {emitted_total} of {spec["max_cases"]} scenarios '
                                     f'({col.skipped["simulation_process_stopped_out_of_arithmetic_range"]} processes stopped by arithmetic overflow)')
        drain(0)
        if os.environ.get('VERIF_DEBUG'):
            print(f'[debug] models + replay done at {time.time() - t0:.1f}s', file=sys.stderr)
        extra_info = {}
        if hasattr(pm, 'post') and col.events:
            for item in pm.post(col.events, tier, seed, ctx):
                if isinstance(item, dict):
                    extra_info.update(item)
                else:
                    payload, r = item
                    col.add(payload, r)
        if os.environ.get('VERIF_DEBUG'):
            print(f'[debug] post done at {time.time() - t0:.1f}s', file=sys.stderr)
        if hasattr(pm, 'extra'):
            for item in pm.extra(tier, seed, ctx, pool):
                if isinstance(item, dict):
                    extra_info.update(item)
                else:
                    payload, r = item
                    col.add(payload, r)
    finally:
        pool.terminate()
        pool.join()

    if col.machinery:
        print('MACHINERY FAILURE in replay worker:\n' + col.machinery[0], file=sys.stderr)
        return 2
    if not tlc_runs and not col.evaluations:
        print('MACHINERY FAILURE: nothing was evaluated', file=sys.stderr)
        return 2
    # ---- classify failures against the known-findings file
    known = open_signatures(prop)
    known_hits = collections.Counter()
    violations = []
    for payload, r in col.failed:
        unknown = [m for m in r.mismatches if m.get('signature') not in known]
        for m in r.mismatches:
            if m.get('signature') in known:
                known_hits[m['signature']] += 1
        if unknown:
            violations.append((payload, r, unknown))
    for sig, n in sorted(known_hits.items()):
        print(f'KNOWN-FINDING: property={prop} {sig}: {known[sig].get("what", "")} ({n} observations this run)')
    rc = 0
    shown = 0
    sig_count = collections.Counter()
    for payload, r, unknown in violations:
        for m in unknown:
            sig_count[m.get('signature', '?')] += 1
    per_sig = collections.Counter()
    for payload, r, unknown in violations:
        rc = 1
        sigs = {m.get('signature', '?') for m in unknown}
        fresh = [sg for sg in sigs if per_sig[sg] < 3]
        if fresh and shown < 60:
            for sg in sigs:
                per_sig[sg] += 1
            case = json.loads(payload) if isinstance(payload, str) else payload
            path = write_replay(prop, case, unknown, {'seed': seed, 'tier': tier})
            print(f'VIOLATION property={prop} replay={path}')
            first = [m for m in unknown if m.get('signature') in fresh][0]
            print('   ', json.dumps(first, default=str)[:700])
            shown += 1
    if violations:
        print(f'{len(violations)} violating scenarios; by signature: {dict(sig_count)}')

    vacuous = [t for t in pm.required_tags(tier) if col.tags.get(t, 0) == 0]
    if vacuous and rc == 0:
        print(f'MACHINERY FAILURE: vacuous run, required tags never occurred: {vacuous}; tags seen: {dict(col.tags)}; skipped: {dict(col.skipped)}; evaluations: {col.evaluations}', file=sys.stderr)
        return 2
    if vacuous:
        print(f'note: required tags never occurred in this run: {vacuous} (violations are reported first)', file=sys.stderr)
    samples = []
    for p in first_payloads[:3]:
        try:
            samples.append(json.loads(p) if isinstance(p, str) else p)
        except Exception:
            samples.append(str(p)[:500])
    coverage = {
        'states': distinct,
        'transitions': states,
        'traces_validated_against_impl': col.evaluations,
        'samples': samples or [{'note': 'no scenario emitted'}],
        'evaluations': col.evaluations,
        'distinct_nontrivial': col.nontrivial,
        'observations_compared': col.observations,
        'rule': getattr(pm, 'RULE', 'scenarios are the reachable states of the bounded TLA+ model; distinct by TLC fingerprint; non-trivial = in the property\'s domain (decided exactly by the specification) and actually compared'),
        'tags': dict(col.tags),
        'skipped': dict(col.skipped),
        'known_findings_hit': dict(known_hits),
        'tlc_runs': tlc_runs,
        'exhaustive': all(not r.get('simulate') and not r.get('cut_after_max_cases') for r in tlc_runs) if tlc_runs else False,
        'checker_cmd': f'./check {prop} --tier {tier}',
    }
    if distinct == 0:
        coverage.pop('states'); coverage.pop('transitions')
    tv = extra_info.get('trace_validation') if 'extra_info' in dir() else None
    if tv and distinct == 0:
        # a trace specification visits one state per judged event (plus the initial one per shard)
        coverage['states'] = tv.get('events', 0) + tv.get('shards', 1)
        coverage['transitions'] = tv.get('events', 0)
    coverage.update(extra_info if 'extra_info' in dir() else {})
    assumptions = [ASSUMPTIONS[k] for k in getattr(pm, 'ASSUME', ['small_scope', 'binary64', 'tlc', 'import'])]
    write_evidence(prop, tier, seed, coverage, time.time() - t0, len(violations), assumptions, level=getattr(pm, 'LEVEL', 'model_checking'))
    print(f'{prop} {tier}: TLC {distinct} distinct states / {states} generated; {col.evaluations} scenarios replayed, '
          f'{col.observations} observations compared, {len(violations)} violations, {sum(known_hits.values())} known-finding hits, '
          f'{time.time() - t0:.1f}s')
    return rc
