"""Tokenising the text the library renders for numbers (Utils.ScientificFloat / ScientificComplex, Display.print_*)."""
from __future__ import annotations
import re

MICRO = ('u', 'μ', 'µ')
NUM = re.compile(r'^(-?)(\d+)(?:\.(\d+))?(?:e(-?\d+))?$')


def parse_float_text(text: str, unit: str, prefixes: dict[int, str] | None):
    """returns dict(inf, osgn, digits, ndec, oexp) or None if the text does not tokenise.
    prefixes: the exponent -> letter table in use, or None when prefixes are off."""
    t = text
    if t in ('∞', '-∞'):          # the infinity sign is written without the unit
        return {'inf': True, 'osgn': -1 if t.startswith('-') else 1, 'digits': 0, 'ndec': 0, 'oexp': 0}
    if unit:
        if not t.endswith(unit):
            return None
        t = t[:-len(unit)]
    if t in ('∞', '-∞'):
        return {'inf': True, 'osgn': -1 if t.startswith('-') else 1, 'digits': 0, 'ndec': 0, 'oexp': 0}
    pexp = 0
    if prefixes:
        # the three spellings of the SI prefix micro are the same prefix
        cands = [(e, q) for e, p in prefixes.items() for q in (MICRO if p in MICRO else (p,))]
        for e, p in cands:
            if p and t.endswith(p) and not t[:-len(p)].endswith('e') and NUM.match(t[:-len(p)]):
                pexp = e
                t = t[:-len(p)]
                break
    m = NUM.match(t)
    if not m:
        return None
    sign, pre, post, ex = m.groups()
    post = post or ''
    return {'inf': False, 'osgn': -1 if sign else 1, 'digits': int(pre + post), 'ndec': len(post), 'oexp': pexp + (int(ex) if ex else 0)}
