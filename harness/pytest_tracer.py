"""pytest plugin (-p harness.pytest_tracer): records every steady-state solve the repository's OWN test-suite performs.

Direction (B) on the tests the repository already has: the public solver entry point is wrapped (from outside - no source hook) before any
test module is imported; after every successful call the network it was given and the potentials / voltages / currents it answers are
appended as one JSON line to $VERIF_TRACE_OUT.  Recording never changes what the tests see; a failure to record is counted, not raised.
The recorded events are judged afterwards (harness/props/c01.py: exact solution of the recorded network, judged by TLC with Trace_C01,
compared with the recorded answers)."""
from __future__ import annotations
import os, json, functools

_OUT = os.environ.get('VERIF_TRACE_OUT')
_STATS = {'calls': 0, 'recorded': 0, 'not_recordable': 0}


def _cx(z):
    z = complex(z)
    return [z.real, z.imag]


def _install():
    from CircuitCalculator.Network.NodalAnalysis import bias_point_analysis as bpa
    from .netbuild import project_network
    real = bpa.nodal_analysis_bias_point_solver
    if getattr(real, '_verif_wrapped', False):
        return

    @functools.wraps(real)
    def traced(network, *a, **kw):
        sol = real(network, *a, **kw)
        _STATS['calls'] += 1
        try:
            pn = project_network(network)
            nodes = sorted({b['n1'] for b in pn['br']} | {b['n2'] for b in pn['br']} | {pn['ref']})
            rec = {'ref': pn['ref'],
                   'br': [{'id': b['id'], 'n1': b['n1'], 'n2': b['n2'], 'f': b['f'], 'imm': _cx(b['imm']), 'src': _cx(b['src']), 'type': b['type']} for b in pn['br']],
                   'phi': {n: _cx(sol.get_potential(n)) for n in nodes},
                   'u': {b['id']: _cx(sol.get_voltage(b['id'])) for b in pn['br']},
                   'i': {b['id']: _cx(sol.get_current(b['id'])) for b in pn['br']},
                   'test': os.environ.get('PYTEST_CURRENT_TEST', '')}
            with open(_OUT, 'a') as f:
                f.write(json.dumps(rec) + '\n')
            _STATS['recorded'] += 1
        except Exception:       # noqa - recording must never disturb the test
            _STATS['not_recordable'] += 1
        return sol
    traced._verif_wrapped = True
    bpa.nodal_analysis_bias_point_solver = traced


if _OUT:
    _install()


def pytest_sessionfinish(session, exitstatus):
    if _OUT:
        with open(_OUT + '.stats', 'w') as f:
            json.dump(_STATS, f)
