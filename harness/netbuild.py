"""Realising abstract networks of the specification through the library's public constructors."""
from __future__ import annotations
from fractions import Fraction
from .common import Naming, gauss, gauss_frac, ensure_repo_import

ensure_repo_import()
from CircuitCalculator.Network import elements as elm          # noqa: E402
from CircuitCalculator.Network.network import Network, Branch  # noqa: E402

UNITS = [(0, 0), (3, 0), (-3, 3), (6, -3), (0, -6), (-2, 2), (4, 1)]


def role_of(e: dict) -> str:
    src0 = e['src'] == [[0, 1], [0, 1]]
    imm0 = e['imm'] == [[0, 1], [0, 1]]
    if e['f'] == 'N':
        if imm0:
            return 'V'                      # ideal voltage source (or short): MNA unknown
        return 'P' if src0 else 'I'         # lossy voltage source is stamped as a current source
    return 'P' if src0 else 'I'


def num(g, mode: int, scale: float = 1.0):
    """Python value of a Gaussian rational: minimal type (int/float/complex) or always complex."""
    re, im = gauss_frac(g)
    if mode == 1:
        return complex(float(re) * scale, float(im) * scale)
    if im == 0:
        if scale == 1.0 and re.denominator == 1 and mode == 0:
            return int(re)
        return float(re) * scale
    return complex(float(re) * scale, float(im) * scale)


def fl(g, scale: float = 1.0) -> float:
    re, im = gauss_frac(g)
    assert im == 0, 'real argument expected'
    return float(re) * scale


def make_element(name: str, e: dict, mode: int = 0, zu: float = 1.0, vu: float = 1.0):
    k, a = e['k'], e['a']
    if k == 'resistor':
        return elm.resistor(name, fl(a[0], zu) if mode else num(a[0], 0, zu))
    if k == 'impedance':
        return elm.impedance(name, num(a[0], mode, zu))
    if k == 'conductor':
        return elm.conductor(name, fl(a[0], 1 / zu))
    if k == 'admittance':
        return elm.admittance(name, num(a[0], mode, 1 / zu))
    if k == 'load_v':
        return elm.load(name, P=fl(a[0], vu * vu / zu), V_ref=fl(a[1], vu), Q=fl(a[2], vu * vu / zu))
    if k == 'load_i':
        return elm.load(name, P=fl(a[0], vu * vu / zu), I_ref=fl(a[1], vu / zu), Q=fl(a[2], vu * vu / zu))
    if k == 'voltage_source':
        return elm.voltage_source(name, V=num(a[0], mode, vu), Z=num(a[1], mode, zu))
    if k == 'current_source':
        return elm.current_source(name, I=num(a[0], mode, vu / zu), Y=num(a[1], mode, 1 / zu))
    if k == 'short_circuit':
        return elm.short_circuit(name)
    if k == 'open_circuit':
        return elm.open_circuit(name)
    raise ValueError(k)


def build_network(br: list[dict], ref: int, naming: Naming, mode: int = 0, units=(0, 0), order: list[int] | None = None):
    """returns (Network, id_of: {spec id -> str}, node_of: callable)"""
    zu, vu = 10.0 ** units[0], 10.0 ** units[1]
    ids = {b['id']: naming.eid(b['id'], role_of(b['e'])) for b in br}
    seq = br if order is None else [br[i] for i in order]
    branches = [Branch(naming.node(b['n1']), naming.node(b['n2']), make_element(ids[b['id']], b['e'], mode, zu, vu)) for b in seq]
    return Network(branches, naming.node(ref)), ids


def project_element(e) -> dict:
    """abstract view of a library element: which dataclass, immittance, source, type"""
    f = 'N' if type(e).__name__ == 'NortenElement' else 'T'
    imm = complex(e.Z) if f == 'N' else complex(e.Y)
    src = complex(e.V) if f == 'N' else complex(e.I)
    return {'f': f, 'imm': imm, 'src': src, 'type': e.type, 'name': e.name}


def project_network(net) -> dict:
    return {'ref': net.node_zero_label,
            'br': [{'id': b.id, 'n1': b.node1, 'n2': b.node2, **project_element(b.element)} for b in net.branches]}


def scales(br: list[dict], volts, amps, zu: float = 1.0, vu: float = 1.0):
    """natural magnitudes of voltage, current and power in a scenario (for absolute tolerances):
    expected values, source values, and what the largest admittance / impedance turns them into"""
    from .common import gauss
    s_v = max([abs(x) for grp in volts for x in grp] + [0.0])
    s_i = max([abs(x) for grp in amps for x in grp] + [0.0])
    ymax, zmax = 0.0, 0.0
    for b in br:
        e = b['e']
        imm, src = gauss(e['imm']), gauss(e['src'])
        if e['f'] == 'N':
            z = abs(imm) * zu
            s_v = max(s_v, abs(src) * vu)
        else:
            z = (1 / abs(imm)) * zu if abs(imm) else 0.0
            s_i = max(s_i, abs(src) * vu / zu)
        if z:
            zmax = max(zmax, z)
            ymax = max(ymax, 1 / z)
    s_v = max(s_v, s_i * zmax)
    s_i = max(s_i, s_v * ymax)
    return s_v, s_i, s_v * s_i
