"""Realising abstract circuits of the specification through the constructors of Circuit/components.py."""
from __future__ import annotations
import math
from fractions import Fraction
from .common import Naming, rat, gauss, ensure_repo_import

ensure_repo_import()
from CircuitCalculator.Circuit import components as ccp          # noqa: E402
from CircuitCalculator.Circuit.circuit import Circuit           # noqa: E402

ROLE = {'dc_voltage_source': 'V', 'ac_voltage_source': 'V', 'complex_voltage_source': 'V', 'periodic_voltage_source': 'V',
        'dc_current_source': 'I', 'ac_current_source': 'I', 'complex_current_source': 'I', 'periodic_current_source': 'I',
        'inductance': 'L', 'capacitor': 'C', 'short_circuit': 'V'}


def f(x) -> float:
    return float(rat(x))


def phase_of(u) -> float:
    """angle of the unit Gaussian u = exp(j phi); extra whole turns may be added by the caller"""
    c, s = rat(u[0]), rat(u[1])
    return math.atan2(float(s), float(c))


def make_component(c: dict, naming: Naming, ids: dict, turns: int = 0, zu: float = 1.0, vu: float = 1.0, wu: float = 1.0):
    """zu, vu, wu: decade units of impedance, voltage and angular frequency"""
    k, v = c['kind'], c['v']
    cid = ids[c['id']]
    if k == 'ground':
        return ccp.ground(id=cid, nodes=(naming.node(c['n1']),))
    nodes = (naming.node(c['n1']), naming.node(c['n2']))
    iu = vu / zu
    if k == 'resistor':
        return ccp.resistor(cid, nodes, R=f(v['R']) * zu)
    if k == 'conductance':
        return ccp.conductance(cid, nodes, G=f(v['G']) / zu)
    if k == 'impedance':
        return ccp.impedance(cid, nodes, Z=complex(f(v['R']), f(v['X'])) * zu)
    if k == 'admittance':
        return ccp.admittance(cid, nodes, Y=complex(f(v['G']), f(v['B'])) / zu)
    if k == 'capacitor':
        return ccp.capacitor(cid, nodes, C=f(v['C']) / zu / wu)
    if k == 'inductance':
        return ccp.inductance(cid, nodes, L=f(v['L']) * zu / wu)
    if k == 'lamp':
        return ccp.lamp(cid, nodes, P=f(v['P']) * vu * vu / zu, V_ref=f(v['V_ref']) * vu)
    if k == 'resistive_load':
        return ccp.resistive_load(cid, nodes, P=f(v['P']) * vu * vu / zu, V_ref=f(v['V_ref']) * vu)
    if k == 'short_circuit':
        return ccp.short_circuit(cid, nodes)
    if k == 'dc_voltage_source':
        return ccp.dc_voltage_source(cid, nodes, V=f(v['V']) * vu, R=f(v['R']) * zu)
    if k == 'dc_current_source':
        return ccp.dc_current_source(cid, nodes, I=f(v['I']) * iu, G=f(v['G']) / zu)
    if k == 'ac_voltage_source':
        return ccp.ac_voltage_source(cid, nodes, V=f(v['V']) * vu, R=f(v['R']) * zu, w=f(v['w']) * wu, phi=phase_of(v['u']) + 2 * math.pi * turns)
    if k == 'ac_current_source':
        return ccp.ac_current_source(cid, nodes, I=f(v['I']) * iu, G=f(v['G']) / zu, w=f(v['w']) * wu, phi=phase_of(v['u']) + 2 * math.pi * turns)
    if k == 'complex_voltage_source':
        return ccp.complex_voltage_source(cid, nodes, V=gauss(v['V']) * vu, Z=gauss(v['Z']) * zu)
    if k == 'complex_current_source':
        return ccp.complex_current_source(cid, nodes, I=gauss(v['I']) * iu, Y=gauss(v['Y']) / zu)
    if k == 'periodic_voltage_source':
        return ccp.periodic_voltage_source(cid, nodes, wavetype=v['wave'], V=f(v['V']) * vu, w=f(v['w']) * wu, phi=phase_of(v['u']) + 2 * math.pi * turns, R=f(v['R']) * zu)
    if k == 'periodic_current_source':
        return ccp.periodic_current_source(cid, nodes, wavetype=v['wave'], I=f(v['I']) * iu, w=f(v['w']) * wu, phi=phase_of(v['u']) + 2 * math.pi * turns, G=f(v['G']) / zu)
    raise ValueError(k)


def build_circuit(comps: list[dict], naming: Naming, turns: int = 0, units=(0, 0, 0), order=None):
    zu, vu, wu = (10.0 ** x for x in units)
    ids = {c['id']: naming.eid(c['id'], ROLE.get(c['kind'], 'P')) for c in comps}
    seq = comps if order is None else [comps[i] for i in order]
    return Circuit([make_component(c, naming, ids, turns, zu, vu, wu) for c in seq]), ids


def pi_value(g, pik: int) -> complex:
    return gauss(g) * math.pi ** (-pik)
