"""Direction (B): code -> spec.  Events recorded from the real library are judged by TLC with a trace
specification (spec/trace/Trace_*.tla) that reuses the operators of the main specification."""
from __future__ import annotations
import os, json, tempfile, shutil, subprocess, concurrent.futures as cf
from .common import MachineryError, VERIF
from .tlc import SPEC, JAR, DEPS, die_with_parent


def _run_shard(module: str, events: list[dict], idx: int, tmp: str, timeout: int):
    path = os.path.join(tmp, f'trace_{idx}.json')
    with open(path, 'w') as f:
        json.dump(events, f)
    lib = os.pathsep.join([SPEC, os.path.join(SPEC, 'mc'), os.path.join(SPEC, 'trace')])
    cmd = ['java', '-XX:+UseParallelGC', '-Xss64m', '-Xmx2g', f'-Djava.io.tmpdir={tmp}', f'-DTLA-Library={lib}', '-cp', f'{JAR}:{DEPS}', 'tlc2.TLC', '-workers', '1',
           '-metadir', os.path.join(tmp, f'meta_{idx}'), '-noGenerateSpecTE', '-config', 'Trace.cfg', module]
    env = dict(os.environ, TRACE_FILE=path)
    env.pop('JAVA_TOOL_OPTIONS', None)
    p = subprocess.run(cmd, cwd=os.path.join(SPEC, 'trace'), capture_output=True, text=True, env=env, timeout=timeout, preexec_fn=die_with_parent)
    verdicts = {}
    errors = []
    for line in p.stdout.splitlines():
        if line.startswith('<<"VERDICT", ') and line.endswith('>>'):
            d = json.loads(json.loads(line[len('<<"VERDICT", '):-2]))
            verdicts[d['tid']] = d
        elif line.startswith('Error:') or 'Overflow' in line:
            errors.append(line)
    accepted = p.returncode == 0 and not errors
    return idx, verdicts, accepted, errors, p.stdout[-3000:] if not accepted else ''


def judge(module: str, events: list[dict], shards: int = 16, timeout: int = 900, implicit_ok: bool = False) -> tuple[dict, dict]:
    """returns ({tid: verdict record}, info).  Every event must get a verdict and every shard's trace must be accepted in full
    (POSTCONDITION: TLC consumed all events), else MachineryError - except shards stopped by 32-bit overflow, whose unjudged events
    are reported as skipped_out_of_arithmetic_range."""
    if not events:
        return {}, {'events': 0}
    tmp = tempfile.mkdtemp(prefix='verif_trace_')
    try:
        shards = max(1, min(shards, len(events) // 20 or 1))
        parts = [events[i::shards] for i in range(shards)]
        out = {}
        skipped = 0
        counter = [0]

        def judge_part(part, idx):
            """verdicts of one part; an overflow stops TLC at one event, so the part is bisected until the offending events are isolated"""
            _, verdicts, accepted, errors, tail = _run_shard(module, part, idx, tmp, timeout)
            if accepted:
                return verdicts, 0
            if not any('verflow' in e for e in errors):
                raise MachineryError(f'trace validation of a shard with {module} failed:\n' + '\n'.join(errors[:10]) + '\n' + tail)
            if len(part) == 1:
                return {part[0]['tid']: {'tid': part[0]['tid'], 'v': 'skipped_out_of_arithmetic_range'}}, 1
            res, sk = {}, 0
            half = len(part) // 2
            for sub in (part[:half], part[half:]):
                counter[0] += 1
                v, k = judge_part(sub, 1000 * (idx % 1000 + 1) + counter[0])
                res.update(v)
                sk += k
            return res, sk

        with cf.ThreadPoolExecutor(max_workers=shards) as ex:
            futs = [ex.submit(judge_part, part, i) for i, part in enumerate(parts)]
            for fu in futs:
                verdicts, k = fu.result()
                out.update(verdicts)
                skipped += k
        missing = [e['tid'] for e in events if e['tid'] not in out]
        if implicit_ok:
            # the trace specification prints only rejections; acceptance of the whole shard (POSTCONDITION) proves every event was judged
            for t in missing:
                out[t] = {'tid': t, 'v': 'ok'}
            missing = []
        if missing:
            raise MachineryError(f'{len(missing)} events got no verdict from {module}')
        return out, {'events': len(events), 'shards': shards, 'skipped_out_of_arithmetic_range': skipped}
    finally:
        shutil.rmtree(tmp, ignore_errors=True)
