"""Direction (B): code -> spec.  Events recorded from the real library are judged by TLC with a trace
specification (spec/trace/Trace_*.tla) that reuses the operators of the main specification."""
from __future__ import annotations
import os, json, tempfile, shutil, subprocess, concurrent.futures as cf
from .common import MachineryError, VERIF
from .tlc import SPEC, JAR, DEPS


def _run_shard(module: str, events: list[dict], idx: int, tmp: str, timeout: int):
    path = os.path.join(tmp, f'trace_{idx}.json')
    with open(path, 'w') as f:
        json.dump(events, f)
    lib = os.pathsep.join([SPEC, os.path.join(SPEC, 'mc'), os.path.join(SPEC, 'trace')])
    cmd = ['java', '-XX:+UseParallelGC', '-Xss64m', '-Xmx2g', f'-DTLA-Library={lib}', '-cp', f'{JAR}:{DEPS}', 'tlc2.TLC', '-workers', '1',
           '-metadir', os.path.join(tmp, f'meta_{idx}'), '-noGenerateSpecTE', '-config', 'Trace.cfg', module]
    env = dict(os.environ, TRACE_FILE=path)
    env.pop('JAVA_TOOL_OPTIONS', None)
    p = subprocess.run(cmd, cwd=os.path.join(SPEC, 'trace'), capture_output=True, text=True, env=env, timeout=timeout)
    verdicts = {}
    errors = []
    for line in p.stdout.splitlines():
        if line.startswith('<<"VERDICT", ') and line.endswith('>>'):
            d = json.loads(json.loads(line[len('<<"VERDICT", '):-2]))
            verdicts[d['tid']] = d
        elif line.startswith('Error:') or 'Overflow' in line:
            errors.append(line)
    accepted = p.returncode == 0 and not errors
    return idx, verdicts, accepted, errors, p.stdout[-3000:] if not accepted else ''


def judge(module: str, events: list[dict], shards: int = 16, timeout: int = 900, implicit_ok: bool = False) -> tuple[dict, dict]:
    """returns ({tid: verdict record}, info).  Every event must get a verdict and every shard's trace must be accepted in full
    (POSTCONDITION: TLC consumed all events), else MachineryError - except shards stopped by 32-bit overflow, whose unjudged events
    are reported as skipped_out_of_arithmetic_range."""
    if not events:
        return {}, {'events': 0}
    tmp = tempfile.mkdtemp(prefix='verif_trace_')
    try:
        shards = max(1, min(shards, len(events) // 20 or 1))
        parts = [events[i::shards] for i in range(shards)]
        out = {}
        skipped = 0
        with cf.ThreadPoolExecutor(max_workers=shards) as ex:
            futs = [ex.submit(_run_shard, module, part, i, tmp, timeout) for i, part in enumerate(parts)]
            pending_retry = []
            for fu in futs:
                idx, verdicts, accepted, errors, tail = fu.result()
                out.update(verdicts)
                if not accepted:
                    if any('verflow' in e for e in errors):
                        pending_retry.append((idx, verdicts))
                    else:
                        raise MachineryError(f'trace validation of shard {idx} with {module} failed:\n' + '\n'.join(errors[:10]) + '\n' + tail)
            # an overflow stops TLC at one event: judge the remaining events of that shard one by one
            for idx, verdicts in pending_retry:
                rest = [e for e in parts[idx] if e['tid'] not in verdicts]
                for k, ev in enumerate(rest):
                    _, v2, acc2, err2, tail2 = _run_shard(module, [ev], 1000 + idx * 1000 + k, tmp, timeout)
                    if acc2:
                        out.update(v2)
                    elif any('verflow' in e for e in err2):
                        out[ev['tid']] = {'tid': ev['tid'], 'v': 'skipped_out_of_arithmetic_range'}
                        skipped += 1
                    else:
                        raise MachineryError(f'trace validation with {module} failed on one event:\n' + '\n'.join(err2[:10]) + '\n' + tail2)
        missing = [e['tid'] for e in events if e['tid'] not in out]
        if implicit_ok:
            # the trace specification prints only rejections; acceptance of the whole shard (POSTCONDITION) proves every event was judged
            for t in missing:
                out[t] = {'tid': t, 'v': 'ok'}
            missing = []
        if missing:
            raise MachineryError(f'{len(missing)} events got no verdict from {module}')
        return out, {'events': len(events), 'shards': shards, 'skipped_out_of_arithmetic_range': skipped}
    finally:
        shutil.rmtree(tmp, ignore_errors=True)
