#!/bin/sh
# tools/try_equivalent.sh [property ids...]  - the equivalent changes of equivalent/patch*.diff, each on a scratch worktree: every check must stay silent
props="$*"; [ -n "$props" ] || props="C01 C02 C03 C04 C05 C06 C07 C08 C09 C10 C11 C12 C13 C14 C15 C16 C17 C18 C19 C20"
rc=0
for patch in /verif/equivalent/patch*.diff; do
  wt=$(mktemp -d /tmp/equivwt.XXXXXX); out=$(mktemp -d /tmp/equivout.XXXXXX)
  git -C /repo worktree add --detach "$wt/r" HEAD >/dev/null 2>&1 || { echo "cannot create worktree"; exit 2; }
  (cd "$wt/r" && git apply "$patch") || { echo "$patch does not apply"; git -C /repo worktree remove --force "$wt/r"; exit 2; }
  for p in $props; do
    (cd /verif && VERIF_REPO=$wt/r VERIF_OUT=$out ./check "$p" --tier quick >"$out/$p.log" 2>&1); e=$?
    echo "$(basename $patch) $p exit=$e $(grep -v '^    \|^KNOWN' "$out/$p.log" | tail -1 | cut -c1-200)"
    [ $e -eq 0 ] || rc=1
  done
  cd /; git -C /repo worktree remove --force "$wt/r"; git -C /repo worktree prune; rm -rf "$wt" "$out"
done
exit $rc
