#!/bin/sh
# tools/try_reverts.sh - every repaired defect must be reported again if it returns: each `fix:` commit recorded in known_findings.json is
# reverted on a scratch worktree of /repo's HEAD and the property's quick check is run against it (VERIF_REPO); expected: VIOLATION.
out=$(mktemp -d /tmp/revout.XXXXXX)
/venv/bin/python - <<'PY' > "$out/list.txt"
import json
k = json.load(open('/verif/known_findings.json'))
for f in k:
    if f.get('status') == 'fixed' and f.get('commit'):
        print(f['property'], f['commit'])
PY
rc=0
while read prop commit; do
  wt=$(mktemp -d /tmp/revwt.XXXXXX)
  git -C /repo worktree add --detach "$wt/r" HEAD >/dev/null 2>&1 || { echo "$prop $commit cannot create worktree"; continue; }
  if (cd "$wt/r" && git revert --no-commit "$commit" >/dev/null 2>&1); then
    (cd /verif && VERIF_REPO=$wt/r VERIF_OUT=$out ./check "$prop" --tier quick >"$out/$prop.$commit.log" 2>&1); e=$?
    echo "$prop $commit exit=$e $(grep -c '^VIOLATION' "$out/$prop.$commit.log") violation lines; $(grep -v '^    \|^KNOWN\|^VIOLATION' "$out/$prop.$commit.log" | tail -1 | cut -c1-160)"
    [ $e -eq 1 ] || rc=1
  else
    echo "$prop $commit revert does not apply cleanly on HEAD (later fixes touch the same lines): skipped"
  fi
  cd /; git -C /repo worktree remove --force "$wt/r"; rm -rf "$wt"
done < "$out/list.txt"
git -C /repo worktree prune; rm -rf "$out"
exit $rc
