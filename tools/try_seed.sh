#!/bin/sh
# tools/try_seed.sh <dir with patch.diff and demo.py> <property id> [more property ids...]
# confirms the seeded change (demo passes without it, fails with it, repo suite unchanged) and runs the named quick checks against it
d="$1"; shift; case "$d" in /*) ;; *) d="/verif/$d";; esac
cd /repo || exit 2
git diff --quiet || { echo "/repo is not clean"; exit 2; }
echo "== demo on the unchanged tree"; PYTHONPATH=/repo/src MPLBACKEND=Agg /venv/bin/python "$d/demo.py" >/dev/null 2>&1; echo "exit=$?"
git apply "$d/patch.diff" || { echo "patch does not apply"; exit 2; }
echo "== repo suite with the change"; PYTHONPATH=/repo/src /venv/bin/python -m pytest -q -p no:cacheprovider tests 2>&1 | tail -1
echo "== demo with the change"; PYTHONPATH=/repo/src MPLBACKEND=Agg /venv/bin/python "$d/demo.py" >/dev/null 2>&1; echo "exit=$?"
for p in "$@"; do
  echo "== ./check $p (quick) with the change"
  (cd /verif && ./check "$p" --tier quick 2>&1 | grep -v '^    ' | tail -4 | cut -c1-400; )
done
git checkout -- . ; git status --short
