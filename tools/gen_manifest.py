#!/usr/bin/env python3
"""Regenerates MANIFEST.json from the table below (one entry per property)."""
import json, os
HERE = os.path.dirname(os.path.dirname(os.path.abspath(__file__)))

TLC_BASE = ('TLC 1.8.0 evaluation of the TLA+ modules; binary64 evaluation of the specification\'s exact expectations with tolerance 1e-9; '
            'small-scope hypothesis (exact 32-bit arithmetic bounds the model size); the harness imports /repo/src (asserted).')

CLAIMED = {
 'C01': dict(
   text='Bounded model checking of an explicit TLA+ specification (spec/Net.tla: elements, MNA, declarative Kirchhoff/element-law characterisation) '
        'with TLC: on every connected network within the bound (every element kind, terminal order, parallel branches, reference node) TLC checks that the '
        'constructive solution satisfies the declarative circuit equations exactly over Gaussian rationals, and every reached scenario is replayed through the real '
        'solver (get_potential/voltage/current/power, open_circuit_voltage) under adversarial naming schemes, value types and decade units and compared with the '
        'specification\'s exact solution.  Larger networks (up to 8 nodes / 14 branches) are covered code->spec: planted exact solutions are judged by TLC '
        '(IsSolution + topological well-posedness) and compared with the code; the example networks shipped with the repository and every steady-state solve of the '
        'repository\'s own tests (recorded from outside by a pytest plugin) are judged the same way.',
   ref='DESIGN.md §6 C01', technique='TLA+ spec + TLC bounded model checking; spec->code scenario replay; code->spec trace validation'),
 'C04': dict(
   text='TLC checks on every well-posed network with sources in the bound that scaling the sources scales the solution, that deactivating sources with the '
        'specification\'s ZeroV/ZeroI (the exact semantics of short_circuitify_voltage_sources / open_circuitify_current_sources incl. keep lists) leaves the MNA matrix '
        'unchanged, that the solution is the sum of single-source solutions and that all-sources-off gives zero.  Every scenario is replayed: the library\'s own zeroing '
        'functions are applied with real keep lists, their output is compared (electrically) with ZeroV/ZeroI and solved against the exact expectation; the sum relation is '
        'also checked between code runs; scaled networks are rebuilt and compared with a*solution, |a|^2*power.',
   ref='DESIGN.md §6 C04', technique='TLA+ spec + TLC bounded model checking; spec->code scenario replay'),
 'C06': dict(
   text='PortZ in the TLA+ specification is the unit-test-current definition (sources deactivated, unconnected parts dropped). TLC checks symmetry, zero across ideal '
        'voltage sources, series/parallel composition, the Thevenin voltage-divider law for several loads and Isc = Voc/Zth on every network in the bound; every scenario '
        'is replayed against open_circuit_impedance, element_impedance, open_circuit_voltage, short_circuit_current, Thevenin/Norton equivalents for every ordered node pair, '
        'element and reference node (and Circuit.impedance.* over frequency sweeps).',
   ref='DESIGN.md §6 C06', technique='TLA+ spec + TLC bounded model checking; spec->code scenario replay'),
 'C16': dict(
   text='Each transformer of Network/transformers.py has a TLA+ operator (RemoveOpen, RemoveId, ContractShorts as node classes = set of allowed results, ZeroV/ZeroI '
        'compositions). TLC checks on every network in the bound that each is an electrical identity (simplified network well posed, same solution on all survivors, '
        'reference switching = common shift). The real functions are replayed for every keep list / element / reference; results are checked for membership in the allowed '
        'set (surviving ids, orientation, untouched element objects, merges only within short classes, no non-exempt short left when shorts are disjoint), solved and compared, '
        'and inputs/keep lists must be unchanged.',
   ref='DESIGN.md §6 C16', technique='TLA+ spec + TLC bounded model checking; spec->code scenario replay with relational postcondition'),
 'C02': dict(
   text='The TLA+ module Circuit gives, per component kind, the branch element at angular frequency w (jwL, 1/(jwC), A*exp(j*phi) at the source\'s own frequency, '
        'short/open otherwise); TLC solves every circuit of the bounded generator exactly at every analysis frequency (0, source frequencies, others, just inside/outside '
        'the resolution), checks the circuit equations, capacitor-open / inductor-short at w = 0 and power signs on the model, and every scenario is replayed through '
        'DCSolution and ComplexSolution (peak and RMS): all potentials, voltages, currents under adversarial names, phase turns and decade units.',
   ref='DESIGN.md §6 C02', technique='TLA+ spec + TLC bounded model checking; spec->code scenario replay'),
 'C05': dict(
   text='Tellegen\'s theorem and the sign rules (resistor P = |I|^2 R >= 0, inductor Q >= 0, capacitor Q <= 0) are invariants TLC checks on every network / circuit of '
        'the bounded models at every frequency; every get_power of the library (network solution, DC, peak, RMS, time domain) is compared with the specification\'s '
        'V*conj(I), half of it, V*I and v(t)*i(t); for transient results (dynamic circuits of MC_C12) every element is asked for power / voltage / current in three orders, '
        'the power twice, arrays handed out earlier must not change, and the instantaneous powers must sum to zero at every sample.',
   ref='DESIGN.md §6 C05', technique='TLA+ spec + TLC bounded model checking; spec->code scenario replay'),
 'C07': dict(
   text='ElementAt / NetAt of the TLA+ module Circuit define the one branch each component contributes at w; TLC enumerates every component constructor x parameter '
        'values (incl. 0) x frequency (own, other, near the resolution, harmonics, off-harmonic) x resolution x list position x ground placement, and each scenario is '
        'replayed through transform_circuit / transform: branch list compared field by field (ids, order, terminals, immittance and source value electrically), '
        'node_zero_label and Circuit.ground_node.',
   ref='DESIGN.md §6 C07', technique='TLA+ spec + TLC exhaustive enumeration; spec->code scenario replay (translation validation against the specification)'),
 'C08': dict(
   text='Each waveform is described in TLA+ by what it IS (value per fraction of the period, jumps and slope jumps at its break points); TLC checks for all six wave '
        'types, amplitudes of either sign, offsets, phases of -8..8 quarter turns and every order n <= 400 that the closed-form amplitude*exp(j*phase) the library claims '
        'equals twice the exact Fourier integral (jump method on the shifted descriptor), n = 0 the mean.  The replay binds the code to both sides: time_function against the '
        'descriptor at 64 fractions of the (shifted) period for periods over decades and arbitrary phases (many turns), amplitude/phase/a/b/c(+-n) for every order, lookup by name.',
   ref='DESIGN.md §6 C08', technique='TLA+ spec + TLC exhaustive check of the coefficient identity; spec->code replay'),
 'C09': dict(
   text='The TLA+ specification lists the analysed frequencies (distinct source frequencies and harmonics k*w0 <= w_max, each once) and the spectral line at each as the exact '
        'peak phasor split into the monomials 1, 1/pi, 1/pi^2 (one exact solve each, by linearity); TLC checks the circuit equations per monomial on every circuit of the bounded '
        'generator (DC, AC, periodic sources; coinciding frequencies bit-for-bit and computed differently; w_max between/on/above harmonics).  Replay: frequency_components, '
        'FrequencyDomainSolution one- and two-sided (w, X) for every node and component, TimeDomainSolution time functions at seeded arbitrary times.',
   ref='DESIGN.md §6 C09', technique='TLA+ spec + TLC bounded model checking; spec->code scenario replay'),
 'C03': dict(
   text='TLC proves on the bounded network and circuit models the relations a transformed description must satisfy: reversing any subset of elements (source values negated) '
        'leaves all potentials unchanged and negates exactly those elements\' own voltage and current (powers unchanged), another reference node is a common shift, every '
        'permutation of the listing gives the same solution, port impedances are unchanged.  The replay applies seeded random combinations of 42 adversarial naming schemes (incl. identifiers and node labels that are substrings of one another), '
        'permutations, reversal subsets, reference nodes / ground placements to the real objects (network solver, port impedance, DC and complex circuit solutions; '
        'state-space and transient results through the C10/C12 drivers) and compares with the base expectation pushed through those relations.',
   ref='DESIGN.md §6 C03', technique='TLA+ spec + TLC bounded model checking of the invariance relations; spec->code replay of transformed descriptions'),
 'C17': dict(
   text='The TLA+ module Docs defines what a network description denotes (LoadNetwork: element per kind of the loader table; Cartesian and polar notations denote abs*u) and '
        'that a document round trip is the identity; TLC checks that every notation of a number gives the same element and enumerates every kind x notation x optional field x '
        'position, the circuit-loader kinds with parameter values, and all nested documents of depth <= 3 (dictionaries, lists, int/float/string/complex leaves).  Replay: '
        'load_network (twice on the same object, and from a JSON file), to_complex (radians/degrees, twice), generate_component / undictify_circuit, serialize/deserialize/dump/load '
        'in JSON and YAML, and in-memory documents written in Cartesian / polar-radian / polar-degree notation loaded twice; results compared with the specification and every '
        'argument snapshot compared before/after.',
   ref='DESIGN.md §6 C17', technique='TLA+ spec + TLC exhaustive enumeration; spec->code scenario replay with argument snapshots'),
 'C19': dict(
   text='Acceptance is decided by validity predicates of the TLA+ specification (ValidNet, ValidCircuit, ValidComp, ValidLoad, ValidNetDoc, ValidCircDoc, known waveform / '
        'identifier) evaluated by TLC on every enumerated description: networks and circuits with every duplicate-id pattern, unused reference, 0-2 ground components at every '
        'position; every component constructor with each sign-checked parameter in {-1, 0, 2} and unknown wave types; load elements; network / circuit description documents '
        'with unknown type, each missing key, wrong value keys, negative values at every position; declarative schematic lists; queries with known / unknown identifiers on all '
        'six solution kinds.  Replay observes "raised" vs "returned" and that accepted descriptions are stored unaltered.',
   ref='DESIGN.md §6 C19', technique='TLA+ validity predicates + TLC exhaustive fault enumeration; spec->code scenario replay'),
 'C18': dict(
   text='Code->spec trace validation: the real ScientificFloat / ScientificComplex / Display.print_* are run on a complete grid (every 1..3-digit decimal mantissa x every '
        'power of ten 10^-15..10^15 x signs x precisions 1..6 x every prefix table in use; binary64 neighbours, rounding carries, out-of-range values, four complex quadrants '
        'in Cartesian / polar rad / polar deg); each rendered text is tokenised and judged by TLC with the TLA+ operator Display!RenderVerdict (sign, exponent multiple of 3, '
        'mantissa in [1,1000], within half a unit of the p-th significant digit with exact ties accepted, infinity only from 10^M upwards); text that does not tokenise is a violation.  '
        'Random doubles with 7-digit brackets are added, and every third rendering re-uses one ScientificFloat object whose fields are reassigned (a read-out that is updated).',
   ref='DESIGN.md §6 C18', technique='TLA+ acceptance predicate evaluated by TLC on recorded outputs (trace validation, code->spec)'),
 'C10': dict(
   text='The TLA+ module StateSpace derives (A, B) and every output row by SUBSTITUTION (capacitor -> voltage source, inductor -> current source, solve the resistive network '
        'with the MNA operators, read i_C/C and v_L/L) - independent of the library\'s inverse-matrix construction - and TLC checks on every non-degenerate circuit of the '
        'bounded generator (degeneracy decided exactly) that C(jwI-A)^-1 B + D equals the exact phasor response of every output (node potential, element voltage, element '
        'current) to every source at every frequency of the sweep incl. w = 0 (DC gain), and that dim = #C + #L.  Replay: nodal_state_space_model (A, B, c_row_*/d_row_*, '
        'published sources) and Circuit.state_space_model.state_space_model are compared THROUGH THE TRANSFER FUNCTION (state basis free) under 42 adversarial naming schemes, '
        'decade units of impedance / voltage / frequency (down to nF and pF), and re-analysis of the same names with other C / L values.',
   ref='DESIGN.md §6 C10', technique='TLA+ spec + TLC bounded model checking of TF = phasor response; spec->code replay'),
 'C11': dict(
   text='TLC checks on the specification\'s state matrix of every non-degenerate circuit in the bound that W A + A^T W is negative semidefinite (signs of all principal minors, '
        'exact) and that Gaussian-rational poles have non-positive real part.  The library\'s A is compared entrywise with that matrix in the published state order (so swapped '
        'value assignments show), its eigenvalues and W A + A^T W are checked numerically, and the stored energy of one simulated free response per scenario is recorded and '
        'judged by TLC (Trace_C11: E[k+1] <= E[k] + eps after the inputs have returned to zero).  Each scenario is also built in decade units (entries of A over 12 decades; '
        'entrywise natural scale, definiteness tested after congruence scaling).',
   ref='DESIGN.md §6 C11', technique='TLA+ spec + TLC (exact definiteness test); spec->code replay; code->spec trace validation of energy sequences'),
 'C12': dict(
   text='For circuits with distinct Gaussian-rational poles (all first-order ones, second-order ones with rational-square discriminant incl. designed complex-pole families) '
        'the TLA+ module Transient carries the exact first-order-hold response to step / triangle / ramp inputs symbolically - polynomials in p_i = exp(lambda_i h) and 1/h built '
        'from spectral projectors that TLC checks to reproduce A - and the harness evaluates them for two grids; every potential, voltage and current sample of TransientSolution '
        'is compared (1e-8), plus rest start, power = v*i, Kirchhoff\'s current law at every sample and settling to the exact DC gains on a long run, also for the same names '
        're-analysed with other C / L on a compressed time axis; circuits outside the '
        'rational-pole class get the algebraic clauses only.',
   ref='DESIGN.md §6 C12, §7', technique='TLA+ spec (symbolic modal closed form) + TLC; spec->code replay',
   note='As TLC_BASE; additionally: exp() is evaluated by the harness (one call per pole); exact response only for circuits with distinct Gaussian-rational poles of order <= 2.'),
 'C13': dict(
   text='The TLA+ module Drawing defines the netlist a drawing program depicts (electrical nodes = classes of points joined by chains of wires, one component per two-terminal '
        'symbol in insertion order between the classes of its start and end point, reversed sources swapped, ground = reference, labels name their class) and TLC checks that '
        'a quarter turn of the drawing leaves it unchanged up to renaming.  Programs (<= 8 placements on a 3x3 grid, every supported symbol with either reversal / degree '
        'flag, wires, labels, one ground) are generated by TLC -simulate, built with the real element classes (placement asserted) as drawn and under a random rigid motion, '
        'rescaling, wire splitting, insertion order and naming (and translated at random stages while being built); circuit_translator\'s components are compared with the netlist up to a node bijection respecting ground and '
        'labels, and the DC solution with the specification\'s exact solution.',
   ref='DESIGN.md §6 C13', technique='TLA+ spec + TLC simulation of drawing programs; spec->code replay'),
 'C15': dict(
   text='(a) Programs over the persistable symbol set (TLC -simulate of MC_C13) are built, saved and reloaded 1-3 times with SimpleCircuit.dump_load (JSON) and the reloaded '
        'drawing is compared with the specification\'s netlist after every cycle.  (b) The TLA+ module MC_C15 assigns to every declarative element list (type, values, direction, '
        'length, place_after, reverse; cursor semantics) a drawing program; create_schematic\'s result is compared with that program\'s netlist and with the programmatic construction.',
   ref='DESIGN.md §6 C15', technique='TLA+ spec + TLC simulation; spec->code replay'),
 'C14': dict(
   text='Drawing programs generated by TLC (MC_C13) whose intended netlist is well posed carry the specification\'s exact solution at w = 0 and w = 2.  The real library '
        'produces every voltage / current / power annotation of every component in both directions and every potential annotation under real_solution, complex_solution, '
        'single_frequency_complex_solution (Cartesian, polar rad, polar deg) and single_frequency_time_domain_steady_state_solution (cos/sin, rad/deg, rad/s or Hz); each '
        'label text is tokenised and every number in it is one event judged by TLC with Display!RenderVerdict (sign, exponent, mantissa, half a unit of the displayed digit) '
        'against the exact quantity in the component\'s reference direction, negated iff reverse was requested; phases are compared modulo a full turn.  The declarative '
        'simulation description (element lists of MC_C15 with exact solutions at w = 0 and w = 2) is exercised for its four solution types, with annotation entries '
        'that do and do not carry the reverse key.',
   ref='DESIGN.md §6 C14', technique='TLA+ spec + TLC simulation (scenarios, exact solutions) and TLC trace validation of rendered annotations (code->spec)'),
 'C20': dict(
   text='spec/Session.tla is the client-visible machine: a workspace of description objects and shared argument objects, one action per public call of C01-C12/C16/C17, each of '
        'the shape "workspace unchanged, result = function of the argument VALUES" (action property ArgumentsUnchanged, invariant Repeatable).  TLC -simulate generates call '
        'histories (length 14; exemption list / value dictionaries / frequency and output lists passed shared, fresh, or left at the mutable default); each history runs in one '
        'long-lived process, every call is recorded as an event (digests of all live objects before/after, of the result, and of the same call evaluated in a process forked '
        'from a pristine zygote) and TLC judges the events with Trace_Session (argument_mutated / result_differs_from_isolation / not_repeatable), bit-for-bit.',
   ref='DESIGN.md §6 C20', technique='TLA+ Session machine + TLC simulation of histories; code->spec trace validation against isolated evaluation'),
}

PENDING_REASON = 'check not built yet in this round (planned: TLA+ model + conformance replay, see DESIGN.md §6); no claim is made until it exists'

def main():
    props = [json.loads(l) for l in open(os.path.join(HERE, 'properties.jsonl'))]
    checks, na = [], []
    for p in props:
        pid = p['id']
        if pid in CLAIMED:
            c = CLAIMED[pid]
            checks.append({
                'property_id': pid,
                'quick_cmd': f'./check {pid} --tier quick',
                'thorough_cmd': f'./check {pid} --tier thorough',
                'evidence_file': f'evidence/{pid}.json',
                'replay_cmd_template': f'./check {pid} --replay {{path}}',
                'engine': 'tlc',
                'level_claimed': {'category': c.get('category', 'model_checking'), 'text': c['text'], 'design_ref': c['ref']},
                'level_note': c.get('note', TLC_BASE).replace('As TLC_BASE', TLC_BASE),
                'technique': c['technique'],
            })
        else:
            na.append({'property_id': pid, 'reason': NA.get(pid, PENDING_REASON)})
    m = {
        'version': 1,
        'setup_cmd': './check setup',
        'hooks': {
            'guard': 'CIRCUITCALCULATOR_VERIF',
            'enable': 'no source hooks are needed: the harness observes the public API from outside (env CIRCUITCALCULATOR_VERIF=1 is exported by ./check and reserved)',
            'baseline_off_cmd': 'cd /repo && /venv/bin/python -m pytest -ra -q -p no:cacheprovider --timeout=900 --continue-on-collection-errors',
            'source_commits': [],
            'add_only': True,
        },
        'engines': [{'name': 'tlc', 'path': '/opt/veriftools/tla/tla2tools.jar', 'serves_properties': [c['property_id'] for c in checks],
                     'kind_free_text': 'TLC 1.8.0 explicit-state model checker: exhaustive BFS of bounded models, -simulate, and trace validation of recorded executions'}],
        'checks': checks,
        'notes': 'All checks: ./check <id> --tier quick|thorough ; exit 0 / 1 (+VIOLATION line) / 2 (machinery failure). Fixed defects and open findings: known_findings.json. '
                 'The pinned baseline imports the installed wheel, not /repo/src; every check asserts it runs /repo/src. '
                 'Self-tests of the machinery (not property checks): ./check selftest [--tier thorough] (corrupted expectations / events are noticed; 89 seeded changes in seeded/ '
                 'turn their checks red; the 8 equivalent changes in equivalent/ leave all 20 silent; MC_Display validates the judge of rendered numbers); tools/try_reverts.sh '
                 '(every repaired defect is reported again when its fix is reverted). ./check X01 = spec/Switchboard.tla, growth beyond the listed properties, observations only.',
        'not_applicable': na,
    }
    with open(os.path.join(HERE, 'MANIFEST.json'), 'w') as f:
        json.dump(m, f, indent=1)
    print('claimed', [c['property_id'] for c in checks], 'unclaimed', len(na))

NA = {}
if __name__ == '__main__':
    main()
