#!/bin/sh
# tools/try_seed_wt.sh <dir with patch.diff and demo.py> <property id> [more property ids...]
# like try_seed.sh, but never touches /repo: the patch is applied to a scratch worktree of /repo's HEAD and the checks are
# pointed at it (VERIF_REPO); their evidence and replays go to a scratch directory (VERIF_OUT)
d="$1"; shift; case "$d" in /*) ;; *) d="/verif/$d";; esac
wt=$(mktemp -d /tmp/seedwt.XXXXXX); out=$(mktemp -d /tmp/seedout.XXXXXX)
git -C /repo worktree add --detach "$wt/r" HEAD >/dev/null 2>&1 || { echo "cannot create worktree"; exit 2; }
cd "$wt/r" || exit 2
echo "== demo on the unchanged tree"; PYTHONPATH=$wt/r/src MPLBACKEND=Agg /venv/bin/python "$d/demo.py" >/dev/null 2>&1; echo "exit=$?"
git apply "$d/patch.diff" || { echo "patch does not apply"; git -C /repo worktree remove --force "$wt/r"; exit 2; }
echo "== repo suite with the change"; PYTHONPATH=$wt/r/src /venv/bin/python -m pytest -q -p no:cacheprovider tests 2>&1 | tail -1
echo "== demo with the change"; PYTHONPATH=$wt/r/src MPLBACKEND=Agg /venv/bin/python "$d/demo.py" >/dev/null 2>&1; echo "exit=$?"
for p in "$@"; do
  echo "== ./check $p (quick) with the change"
  (cd /verif && VERIF_REPO=$wt/r VERIF_OUT=$out ./check "$p" --tier quick 2>&1 | grep -v '^    ' | tail -4 | cut -c1-400; )
done
cd /; git -C /repo worktree remove --force "$wt/r"; git -C /repo worktree prune; rm -rf "$wt" "$out"
